import json
hints = {
"C01": "Think about unusual-but-legal INPUTS and USAGE: how numbers are typed (Python ints, numpy scalars, bools as rewards), parameters at the edge of the documented ranges (rho close to 0 or 1, tiny or huge nu, budget exactly 100), very asymmetric boxes, T much smaller than the budget, get_last_point after very few rounds. Already tried by others (avoid): DimensionBinary axis mix-ups, VHCT variance, GPO candidate, T_HOO recursion, SequOOL/Zooming hand-over.",
"C02": "Think about unusual-but-legal INPUTS: bounds typed as Python ints or numpy scalars, negative or mixed-sign boxes, very asymmetric boxes, arity K not in 2..5, dimension 4+, expansion orders that revisit an old shallow leaf late, random draws at the end points. Already tried (avoid): axis lists shared as one object, RandomKary cut chaining, Kary linspace/arange, epsilon nudges, DimensionBinary decode.",
"C03": "Think about multi-step HISTORIES: deepen() after out-of-order make_children, make_children on an old shallow leaf after the tree is much deeper, alternating deepen/expand, trees built by StoSOO, SequOOL, StroquOOL, DOO or VROOM (including what get_last_point does to the tree). Already tried (avoid): DimensionBinary labels, StroquOOL stale max_node, deepen's int identity, Kary layers, Zooming sorting child lists.",
"C04": "Think about multi-step HISTORIES and reward TYPES: rewards given as Python ints / numpy scalars / bools, repeated identical rewards, a cell pulled again after its children exist (HCT/VHCT), StroquOOL's transition into validation, POO's learner creation rounds, Zooming right after a refinement. Already tried (avoid): VROOM chain, T_HOO shared path list, StoSOO leaf index, VHCT variance fast paths, GPO validation counters, SOO past its budget.",
"C07": "Think about WHEN and HOW OFTEN get_last_point is called and on what histories: very short runs (1-3 rounds), runs that stop in the middle of a sweep/opening, all rewards equal, rewards typed as ints, StoSOO with k>1 stopped mid-cell, POO before every learner has a score, PCT/VPCT. Already tried (avoid): SOO/DOO incremental cursors, StroquOOL validation means, SequOOL isclose, GPO zero score / sentinel, SOO skipping layer h_max.",
"C08": "Think about specific HISTORIES: exact reward ties across depths, all-negative rewards, a sweep in which a depth has no leaf, budgets where the default k or h_max lands on a boundary, StoSOO cells evaluated k-1 times when a sweep restarts, DOO with delta functions that return ints or are constant. Already tried (avoid): StoSOO width memo/formula/default k, DOO delta tables and user delta, DOO sibling hand-out order.",
"C11": "Think about specific HISTORIES and geometry: an arm that sits exactly on a corner shared by 4+ children (DimensionBinary, d>=2), K-ary partitions with odd K where the arm is the middle child's centre, arms refined several times in a row, reward ties between arms, integer-typed rewards. Do NOT rely on which phase applies in the reward step of a phase-closing round (left open). Already tried (avoid): isclose containment, bonus/threshold tables, dict re-ordering in a vectorised arg-max, last-dimension-only containment.",
"C12": "Think about specific HISTORIES: a depth with fewer unopened cells than its budget, budgets n at which floor(h_max/h) changes, partitions with many children (2^d with d=3, K=5), stopping and querying mid-opening, ties between siblings, rewards typed as ints, what pull returns AFTER the schedule is exhausted for many more rounds. Already tried (avoid): masked arg-max variants, harmonic number approximations, reciprocal budget table, centre reuse for the middle child.",
"C14": "Think about how INPUT OBJECTS are retained: the domain list (and its inner lists) being stored and later written to - e.g. by a cell that shares its box with the user's list, parameters objects reused between instances, the partition CLASS being mutated (attributes set on the class rather than the instance), objects returned by pull() that the user may legally modify (a returned point list being the cell's own centre). Already tried (avoid): module/class-level caches keyed by id/hash, set ordering, swapping descending ranges, unseeded generators, mutable default kwargs, constants stored on node classes.",
"C15": "Think about the time argument's TYPE and VALUE: labels starting at 0 (falsy!), labels given as numpy ints or floats, huge labels, labels used as default when None; and about get_last_point called BEFORE the first pull, twice in a row, or right after a refinement/expansion. Already tried (avoid): HCT clock in pull, T_HOO rounds from time, VHCT expanding in traverse, POO tie-break RNG / current-learner overwrite, GPO budget guard, SOO post-budget.",
"C16": "Think about where a COORDINATE or ABSOLUTE LENGTH can sneak into a decision: tie-breaking between cells by their centre, sorting candidates by point, a default parameter derived from the domain width, rounding/formatting of points, hashing points, comparisons with 0 (sign of a coordinate), the recommendation step. Already tried (avoid): isclose containment and split-axis selection, underflow guards, DimensionBinary index, DOO diameter, Zooming absolute cell size.",
"C17": "Think about INPUT TYPES and parameters: points given as ints, numpy arrays vs lists, numpy float32, parameters at the edge of documented ranges (rho1 or rho2 = 0.05 or 1, tmax = 0 or 1), Rastrigin in dimension 4, box corners, Cexample / Garland / Ackley_Normalized / Himmelblau_Normalized. Already tried (avoid): DoubleSine envelope and tmax forwarding, Rastrigin normalisation caching, hash memo tables, DifficultFunc pow.",
}
props = {json.loads(l)["id"]: json.loads(l) for l in open("/verif/properties.jsonl")}
for pid, p in props.items():
    if pid not in hints: continue
    body = f"""# Brief for {pid}

You are working in a scratch git worktree of the Python library PyXAB (X-armed bandit / black-box
optimisation algorithms over hierarchical partitions) at `/tmp/seed10/{pid}`. Work ONLY inside that
directory. Do not read or write anything under /repo or /verif. Do not commit anything.

## The property (this is all you are given)

```json
{json.dumps(p, indent=1)}
```

## Task

Make a change to the library source (files under `PyXAB/`, not the tests) that **breaks this
property** while
  1. the package still imports and the existing test-suite still passes unchanged:
     `cd /tmp/seed10/{pid} && /venv/bin/python -m pytest -q -p no:cacheprovider --timeout=900 PyXAB/tests`
     (124 tests; run it from inside your worktree so that your copy of `PyXAB` is the one imported -
     check with `python -c "import PyXAB; print(PyXAB.__file__)"` from that directory);
  2. the change looks like something a maintainer could plausibly write (a refactoring, an
     optimisation, a clean-up, a small feature) - not sabotage guarded by an odd constant;
  3. it needs something SPECIFIC in order to manifest - (preferred this time) **an unusual but legal
     input or way of using the API** (how numbers/containers are typed or written, parameters at the
     edge of the documented ranges, when/how often a query is made) or **a particular multi-step
     history** - rather than something ordinary use on `[0,1]` with BinaryPartition and float noise
     would expose at once;
  4. it lies INSIDE the property's quantifier (the configurations / histories the property text
     talks about) and contradicts what the property STATES, not something it leaves open;
  5. avoid the over-used tricks: no `isclose`/tolerance comparisons, no hash- or id-keyed memo
     tables, no behaviour switched on only beyond a huge size (thousands of rounds, depth > 100).

Focus hint: {hints[pid]}

## Deliverables (in `/tmp/seed10/{pid}/`)

* the change itself, left UNCOMMITTED in the worktree (so that `git diff -- PyXAB` shows it);
* `demo.py`: a small stand-alone program that imports PyXAB from the current directory
  (`sys.path.insert(0, os.getcwd())` or run with PYTHONPATH=.), demonstrates the violation with
  plain assertions about what the property states, exits with status 1 (printing what failed)
  on the changed tree and status 0 on the unchanged tree. Verify both: run it with your change,
  then `git stash`, run it again (must exit 0), then `git stash pop`.
* `NOTES.md`: 10-20 lines - what you changed, why it looks innocent, what exactly is needed for it
  to manifest (be precise: which algorithm/partition/parameters/history), and the output of the
  test-suite run and of the two demo runs.

Finish by reporting, in a few lines: the files changed, the one-sentence trigger condition, and
the observed exit codes (tests, demo with change, demo without).
"""
    open(f"/tmp/seed10/briefs/{pid}.md", "w").write(body)
print("ok")
