#!/usr/bin/env python3
# usage: imp.py ID name "needs" [extra checks comma-separated]
import json, os, subprocess, sys
pid, name, needs = sys.argv[1], sys.argv[2], sys.argv[3]
extra = sys.argv[4].split(",") if len(sys.argv) > 4 and sys.argv[4] else []
env = dict(os.environ, SEEDROOT="/tmp/seed10")
subprocess.run(["sh", "/verif/tools/import_seed.sh", pid, name], env=env, check=True)
mp = f"/verif/seeded/{name}/meta.json"
m = json.load(open(mp))
m["checks"] = [pid] + extra
m["source"] = ("independent sub-agent (round 10) given only the property text, a focus hint naming code that earlier rounds had not "
               "targeted, and the request for a plausible maintainer change that needs something specific to manifest - preferably an unusual but legal input / usage or a multi-step history "
               "(no isclose/hash/id tricks, no huge-size thresholds) - in a scratch git worktree")
m["needs_to_manifest"] = needs
m["confirmed"] = (f"tools/seeded_check.py --only {name}: the repository's 124 tests pass on a scratch copy with patch.diff applied; "
                  "demo.py exits 1 with the change and 0 on the clean copy; the listed quick checks were run with VERIF_REPO pointing at the copy")
m["round"] = 10
json.dump(m, open(mp, "w"), indent=1)
