import json
hints = {
"C01": "Earlier attempts already covered DimensionBinaryPartition axis mix-ups, VHCT variance, GPO's candidate, T_HOO recursion and SequOOL's get_last_point. Aim elsewhere: StoSOO, StroquOOL, Zooming, DOO, VROOM, POO, or the random partitions (RandomBinaryPartition / RandomKaryPartition) under unusual-but-legal random draws, or the PCT/VPCT wrappers.",
"C02": "Earlier attempts already covered RandomKary split margins/cut chaining, KaryPartition boundaries, RandomBinary epsilon nudges and DimensionBinary decode/axis mix-ups. Aim elsewhere: BinaryPartition, P_node's centre computation (Node.py), Partition.deepen, the choice of split axis, or an interaction between two of these sites.",
"C03": "Earlier attempts already covered DimensionBinary labels, StroquOOL re-splits, deepen()'s depth counter, VROOM's get_last_point and KaryPartition layers/labels. Aim elsewhere: BinaryPartition / RandomBinaryPartition / RandomKaryPartition make_children, P_node.update_children, or the newlayer argument as computed by SOO, StoSOO, SequOOL, Zooming, T_HOO or HCT when they expand a cell.",
"C04": "Earlier attempts already covered VROOM's chain, T_HOO's path list, StoSOO indexing, VHCT's variance and GPO's validation score. Aim elsewhere: Zooming's per-arm statistics, POO's score bookkeeping, DOO, SOO, SequOOL, StroquOOL, HCT's counts, or T_HOO's ancestor credits.",
"C05": "Earlier attempts already covered HCT's refresh, T_HOO/HCT back-propagation, VHCT's tau and the delta~ clip. Aim elsewhere: the traversal (which child is followed, where the descent stops), VHCT's U-value formula, T_HOO's U-value, or two sites that must agree (e.g. the value used in the threshold vs. the one used in the U-value).",
"C06": "Earlier attempts already covered the leaf test, T_HOO's truncation bound (several variants), a collapsed-cell guard and VHCT's variance update. Aim elsewhere: 'at most one cell per round', 'new cells start with zero pulls and infinite U and B', the root split at construction, HCT's expansion threshold itself, or what happens when the pulled cell is internal.",
"C07": "Earlier attempts already covered SOO, StroquOOL (three times), SequOOL and GPO's zero score. Aim elsewhere: DOO, StoSOO, POO, PCT/VPCT, or SOO/SequOOL through a different mechanism than a tolerance or a skipped layer.",
"C08": "Earlier attempts already covered StoSOO's width memo / default k / width formula and DOO's delta handling (four times). Aim elsewhere: SOO's sweep (the running v_max, which leaf of a depth is expanded, which unevaluated leaf is handed out), StoSOO's hand-out rule and k-cap, DOO's choice of which unevaluated child is handed out.",
"C09": "Earlier attempts already covered the best-index cache, N computation (three variants), rho reuse, phase length and de-duplication of validated points. Aim elsewhere: what the learner receives during exploration (the reward of the point it just proposed), the validation point being the learner's LAST proposal, behaviour after all 2NL rounds are used, the PCT/VPCT wrappers' parameter passing, nu_max.",
"C10": "Earlier attempts already covered the stale current learner, the cursor, rho floors, start-up quotas, the grid exponent and the recommendation's arg-max. Aim elsewhere: when a doubling of N is triggered, learner list identity (earlier learners must be kept), Times vs. V_reward consistency, nu_max passing, or two sites that each look fine alone.",
"C11": "Earlier attempts already covered the containment/hand-over test (four times), a bonus table, a threshold table and the phase used at a phase-closing round (do NOT use that last one: which phase applies in the reward step of a phase-closing round is left open by the property). Aim elsewhere: the arg-max over active arms, stored mean/count of an arm, new arms on refinement (at the child's centre, zero pulls), the active set bookkeeping, the phase length.",
"C12": "Earlier attempts already covered the masked arg-max (three times), h_max / harmonic number (twice), a reciprocal budget table and the post-schedule recommendation. Aim elsewhere: the order in which children of an opened cell are pulled, moving from depth h to h+1, the first opening, what pull returns once the schedule is exhausted.",
"C13": "Earlier attempts already covered stale ranks, the ranking depth cap, delta, sampling from an ancestor, the credit chain (three times). Aim elsewhere: the probability vector / normaliser, the mapping from the drawn index to a cell, rank ties, the descent from the drawn cell to depth h_max (which child is followed), the LCB's count term.",
"C14": "Earlier attempts already covered module/class-level caches (five times), set ordering, swapping a descending range and an unseeded generator. Aim elsewhere: aliasing between a cell's box and the user's domain list (a later write reaching the caller's list), a mutable default argument, an algorithm disturbing NumPy's global generator state in a way that makes a SECOND object in the process behave differently, iteration over a dict keyed by objects.",
"C15": "Earlier attempts already covered HCT's clock, T_HOO's rounds (three times), VHCT expanding in traverse, POO's tie-break consuming the generator and GPO's budget guard. Aim elsewhere: Zooming or POO get_last_point touching state, and the time label leaking into DOO, SOO, SequOOL, VROOM, Zooming or POO (e.g. used as a counter, as a modulus, or compared with a stored round).",
"C16": "Earlier attempts already covered Zooming's containment, split-axis selection in four partitions, RandomBinary underflow, DimensionBinary index and DOO's diameter. Aim elsewhere: a decision inside an algorithm (HCT, VHCT, StoSOO, SequOOL, StroquOOL, VROOM, POO) that accidentally reads a coordinate or an absolute width, Zooming's radius vs. cell size, or the recommendation step.",
"C17": "Earlier attempts already covered DoubleSine's envelope (twice), Rastrigin's normalisation (twice), memo tables in Himmelblau/Ackley and DifficultFunc's pow. Aim elsewhere: Garland, Cexample, the Perturbed_* variants (their fmax vs. their perturbation), Ackley_Normalized / Himmelblau_Normalized scaling, the wrong-length ValueError.",
}
props = {json.loads(l)["id"]: json.loads(l) for l in open("/verif/properties.jsonl")}
for pid, p in props.items():
    body = f"""# Brief for {pid}

You are working in a scratch git worktree of the Python library PyXAB (X-armed bandit / black-box
optimisation algorithms over hierarchical partitions) at `/tmp/seed9/{pid}`. Work ONLY inside that
directory. Do not read or write anything under /repo or /verif. Do not commit anything.

## The property (this is all you are given)

```json
{json.dumps(p, indent=1)}
```

## Task

Make a change to the library source (files under `PyXAB/`, not the tests) that **breaks this
property** while
  1. the package still imports and the existing test-suite still passes unchanged:
     `cd /tmp/seed9/{pid} && /venv/bin/python -m pytest -q -p no:cacheprovider --timeout=900 PyXAB/tests`
     (124 tests; run it from inside your worktree so that your copy of `PyXAB` is the one imported -
     check with `python -c "import PyXAB; print(PyXAB.__file__)"` from that directory);
  2. the change looks like something a maintainer could plausibly write (a refactoring, an
     optimisation, a clean-up, a small feature) - not sabotage guarded by an odd constant;
  3. it needs something SPECIFIC in order to manifest - a multi-step sequence of operations, an
     unusual but legal input, a particular history of rewards, or (preferred this time) **two
     cooperating sites that each look fine on their own** - rather than something ordinary use on
     `[0,1]` with BinaryPartition would expose at once;
  4. it lies INSIDE the property's quantifier (the configurations / histories the property text
     talks about) and contradicts what the property STATES, not something it leaves open;
  5. avoid the over-used tricks: no `isclose`/tolerance comparisons, no hash- or id-keyed memo
     tables, no behaviour switched on only beyond a huge size (thousands of rounds, depth > 100).

Focus hint: {hints[pid]}

## Deliverables (in `/tmp/seed9/{pid}/`)

* the change itself, left UNCOMMITTED in the worktree (so that `git diff -- PyXAB` shows it);
* `demo.py`: a small stand-alone program that imports PyXAB from the current directory
  (`sys.path.insert(0, os.getcwd())` or run with PYTHONPATH=.), demonstrates the violation with
  plain assertions about what the property states, exits with status 1 (printing what failed)
  on the changed tree and status 0 on the unchanged tree. Verify both: run it with your change,
  then `git stash`, run it again (must exit 0), then `git stash pop`.
* `NOTES.md`: 10-20 lines - what you changed, why it looks innocent, what exactly is needed for it
  to manifest (be precise: which algorithm/partition/parameters/history), and the output of the
  test-suite run and of the two demo runs.

Finish by reporting, in a few lines: the files changed, the one-sentence trigger condition, and
the observed exit codes (tests, demo with change, demo without).
"""
    open(f"/tmp/seed9/briefs/{pid}.md", "w").write(body)
print("ok")
