#!/usr/bin/env python3
"""Run the checks against the seeded breaking changes kept under /verif/seeded/<id>/.

For each seeded change (patch.diff + demo.py + meta.json) a scratch copy of /repo's
package is made outside /repo and /verif, the patch is applied there, and
  1. the repository's own test-suite is run on the copy (must still pass),
  2. demo.py is run on the copy (must fail) and on a clean copy (must pass),
  3. the quick check of every property named in meta.json["checks"] (default: the
     property it breaks) is run with VERIF_REPO pointing at the copy; exit 1 = caught.
The copy is removed afterwards.  Nothing is ever applied to /repo itself.

usage: tools/seeded_check.py [--only NAME[,NAME]] [--all-checks] [--confirm-only] [--scale X]
"""
import argparse
import json
import os
import shutil
import subprocess
import sys
import tempfile
import time

HERE = os.path.dirname(os.path.dirname(os.path.abspath(__file__)))
SEEDED = os.path.join(HERE, "seeded")
ALL = ["C%02d" % i for i in range(1, 18)]


def sh(cmd, cwd=None, env=None, timeout=3600):
    r = subprocess.run(cmd, cwd=cwd, env=env, capture_output=True, text=True, timeout=timeout)
    return r.returncode, r.stdout, r.stderr


def make_copy(patch=None):
    tmp = tempfile.mkdtemp(prefix="pyxab_seed_")
    shutil.copytree("/repo/PyXAB", os.path.join(tmp, "PyXAB"), ignore=shutil.ignore_patterns("__pycache__"))
    for f in ("setup.py", "setup.cfg"):
        if os.path.exists(os.path.join("/repo", f)):
            shutil.copy(os.path.join("/repo", f), tmp)
    if patch:
        rc, out, err = sh(["patch", "-p1", "-s", "-i", patch], cwd=tmp)
        if rc != 0:
            shutil.rmtree(tmp, ignore_errors=True)
            raise RuntimeError("patch does not apply: %s %s" % (out, err))
    return tmp


def run_demo(tmp, demo):
    env = dict(os.environ, PYTHONPATH=tmp, PYTHONDONTWRITEBYTECODE="1")
    rc, out, err = sh(["/venv/bin/python", demo], cwd=tmp, env=env, timeout=900)
    return rc, (out + err)[-300:]


def harvest(name, prop, out):
    """Keep the smallest reduced replay as a committed regression, if it passes on the clean tree."""
    import re

    paths = re.findall(r"VIOLATION property=\S+ replay=(\S+)", out)
    paths = [p for p in paths if os.path.exists(os.path.join(HERE, p))]
    if not paths:
        return
    best = min(paths, key=lambda p: os.path.getsize(os.path.join(HERE, p)))
    body = json.load(open(os.path.join(HERE, best)))
    if len(json.dumps(body["case"])) > 20000:
        return
    body["regression_of"] = "seeded change " + name
    dst = os.path.join(HERE, "regressions", prop)
    os.makedirs(dst, exist_ok=True)
    out_path = os.path.join(dst, "seed-%s.json" % name)
    json.dump(body, open(out_path, "w"), indent=1, sort_keys=True)
    rc, o, e = sh([os.path.join(HERE, "check"), prop, "--replay", out_path])
    if rc != 0:  # must be quiet on the real tree
        os.remove(out_path)
        print("    (replay not kept: it does not pass on /repo)")


def main():
    ap = argparse.ArgumentParser()
    ap.add_argument("--only")
    ap.add_argument("--all-checks", action="store_true")
    ap.add_argument("--confirm-only", action="store_true")
    ap.add_argument("--scale", default="1")
    ap.add_argument("--harvest", action="store_true", help="keep the smallest replay of each caught check as regressions/<prop>/seed-<name>.json")
    a = ap.parse_args()
    names = sorted(d for d in os.listdir(SEEDED) if os.path.isfile(os.path.join(SEEDED, d, "patch.diff")))
    if a.only:
        names = [n for n in names if n in a.only.split(",")]
    missed = 0
    for name in names:
        d = os.path.join(SEEDED, name)
        meta = json.load(open(os.path.join(d, "meta.json")))
        demo = os.path.join(d, meta.get("demo", "demo.py"))
        clean = make_copy()
        tmp = make_copy(os.path.join(d, "patch.diff"))
        try:
            env = dict(os.environ, PYTHONPATH=tmp, PYTHONDONTWRITEBYTECODE="1")
            rc, out, err = sh(["/venv/bin/python", "-m", "pytest", "-q", "-p", "no:cacheprovider", "PyXAB/tests"], cwd=tmp, env=env)
            tests_ok = rc == 0
            tail = out.strip().splitlines()[-1] if out.strip() else err[-100:]
            drc, dout = run_demo(tmp, demo)
            crc, cout = run_demo(clean, demo)
            print("%-28s tests:%s (%s) demo-with-change:exit %d demo-clean:exit %d" % (name, "pass" if tests_ok else "FAIL", tail, drc, crc))
            if a.confirm_only:
                continue
            props = ALL if a.all_checks else meta.get("checks", [meta["property"]])
            for p in props:
                env = dict(os.environ, VERIF_REPO=tmp, VERIF_EVIDENCE_DIR=os.path.join(tmp, "ev"), VERIF_BUDGET_SCALE=a.scale)
                t0 = time.time()
                rc, out, err = sh([os.path.join(HERE, "check"), p], env=env)
                line = [l for l in out.splitlines() if l.startswith("  clause=")]
                if a.harvest and rc == 1:
                    harvest(name, p, out)
                verdict = {1: "CAUGHT", 0: "MISSED", 2: "ERR2"}.get(rc, "rc%d" % rc)
                if rc != 1 and p in meta.get("checks", [meta["property"]]):
                    missed += 1
                print("    %s %-6s %5.1fs %s" % (p, verdict, time.time() - t0, (line[0][:170] if line else err[-200:] if rc == 2 else "")))
                sys.stdout.flush()
        finally:
            shutil.rmtree(tmp, ignore_errors=True)
            shutil.rmtree(clean, ignore_errors=True)
    print("missed:", missed)
    return 1 if missed else 0


if __name__ == "__main__":
    sys.exit(main())
