"""Hand-written mutants used by tools/mutation_smoke.py.  Each compiles and passes the
repository's 124 tests (checked when added); 'props' = checks expected to catch it."""

MUTANTS = []


def M(id, file, old, new, props, all=False, more=()):
    """more = further (old, new) replacements in the same file (for two-site mutants)."""
    MUTANTS.append({"id": id, "file": file, "old": old, "new": new, "props": props, "all": all, "more": list(more)})


# ---- partitions / geometry (C02, C16)
M("node-midpoint-lo-plus-half-hi", "PyXAB/partition/Node.py",
  "point.append((x[0] + x[1]) / 2)", "point.append(x[0] + x[1] / 2)", ["C02", "C01", "C16"])
M("binary-split-lo-plus-half-hi", "PyXAB/partition/BinaryPartition.py",
  "domain1[dim] = [selected_dim[0], (selected_dim[0] + selected_dim[1]) / 2]",
  "domain1[dim] = [selected_dim[0], selected_dim[0] + selected_dim[1] / 2]", ["C02"])
M("kary-linspace-num-K", "PyXAB/partition/KaryPartition.py",
  "num=self.K + 1", "num=self.K + 1, endpoint=False", ["C02"])
M("randkary-last-not-pinned", "PyXAB/partition/RandomKaryPartition.py",
  "            if i != self.K - 1:\n                boundary_point_1 = np.random.uniform(boundary_point_0, selected_dim[1])\n            else:\n                boundary_point_1 = selected_dim[1]",
  "            boundary_point_1 = np.random.uniform(boundary_point_0, selected_dim[1])", ["C02"])
M("randbinary-split-outside", "PyXAB/partition/RandomBinaryPartition.py",
  "domain2[dim] = [split_point, selected_dim[1]]",
  "domain2[dim] = [np.nextafter(split_point, np.inf), selected_dim[1]]", ["C02"])
M("dimbinary-wrong-half", "PyXAB/partition/DimensionBinaryPartition.py",
  "comb2 = [split_point, selected_dim[1]]", "comb2 = [split_point, selected_dim[1]] if dim == 0 else [selected_dim[0], split_point]", ["C02"])

# ---- reverts of the repaired defects D1..D7
M("revert-D1-kary-alias", "PyXAB/partition/KaryPartition.py",
  "self.node_list.append(list(new_nodes))", "self.node_list.append(new_nodes)", ["C03"])
M("revert-D1-randkary-alias", "PyXAB/partition/RandomKaryPartition.py",
  "self.node_list.append(list(new_nodes))", "self.node_list.append(new_nodes)", ["C03"])
M("revert-D1-dimbinary-alias", "PyXAB/partition/DimensionBinaryPartition.py",
  "self.node_list.append(list(children_list))", "self.node_list.append(children_list)", ["C03"])
M("revert-D2-doo-delta", "PyXAB/algos/DOO.py",
  "        else:\n            self.delta = delta\n", "", ["C01"])
M("revert-D3-doo-newlayer", "PyXAB/algos/DOO.py",
  "newlayer=(max_node.get_depth() >= self.partition.get_depth()),", "newlayer=True,", ["C03"])
M("revert-D4-doo-reward0", "PyXAB/algos/DOO.py",
  "self.reward = -np.inf", "self.reward = 0", ["C07"])
M("revert-D5-hct-leaf", "PyXAB/algos/HCT.py",
  "            end_node.get_children() is None\n            and end_node.get_visited_times() >= self.tau_h[en_depth]",
  "            end_node.get_visited_times() >= self.tau_h[en_depth]", ["C03", "C04", "C06"])
M("revert-D5-vhct-leaf", "PyXAB/algos/VHCT.py",
  "            end_node.get_children() is None\n            and end_node.get_visited_times() >= end_node.get_tau_hi_value()",
  "            end_node.get_visited_times() >= end_node.get_tau_hi_value()", ["C03", "C04", "C06"])
M("revert-D6-zooming-arm", "PyXAB/algos/Zooming.py",
  "                if not child_updated and arm_reassigned:", "                if False:", ["C11"])

# ---- structure (C03)
M("binary-index-off", "PyXAB/partition/BinaryPartition.py",
  "index=2 * parent.get_index(),", "index=2 * parent.get_index() + 1,", ["C03"])
M("kary-index-order", "PyXAB/partition/KaryPartition.py",
  "index=self.K * parent.get_index() - (self.K - i - 1),", "index=self.K * parent.get_index() - i,", ["C03"])
M("dimbinary-index-base", "PyXAB/partition/DimensionBinaryPartition.py",
  "index=num_children * (parent.get_index() - 1) + i + 1,", "index=2 * (parent.get_index() - 1) + i + 1,", ["C03"])
M("hoo-newlayer-inverted", "PyXAB/algos/HOO.py",
  "if parent.get_depth() >= self.partition.get_depth():", "if parent.get_depth() > self.partition.get_depth():", ["C01"])
M("randbinary-depth-not-bumped", "PyXAB/partition/RandomBinaryPartition.py",
  "            self.node_list.append(new_deepest)\n            self.depth += 1",
  "            self.node_list.append(new_deepest)\n            self.depth = len(self.node_list) - 1 if len(self.node_list) < 6 else self.depth", ["C03"])

# ---- objectives (C17)
M("garland-4.1", "PyXAB/synthetic_obj/Garland.py", "return x * (1 - x) * (4 - np.sqrt(np.abs(np.sin(60 * x))))",
  "return x * (1 - x) * (4.02 - np.sqrt(np.abs(np.sin(60 * x))))", ["C17"])
M("himmelblau-sign", "PyXAB/synthetic_obj/Himmelblau.py", "return -((x1 ** 2 + x2 - 11) ** 2) - (x1 + x2 ** 2 - 7) ** 2",
  "return -((x1 ** 2 + x2 - 11) ** 2) + (x1 + x2 ** 2 - 7) ** 2", ["C17"])
M("ackley-const", "PyXAB/synthetic_obj/Ackley.py", "            - np.e\n            - 20\n        )\n\n\nclass Ackley_Normalized",
  "            - np.e\n            - 19.9999999\n        )\n\n\nclass Ackley_Normalized", ["C17"])
M("doublesine-last-term", "PyXAB/synthetic_obj/DoubleSine.py",
  "return mysin2(math.log(u, 2) / 2.0) * envelope_width - math.pow(u, self.ep2)",
  "return mysin2(math.log(u, 2) / 2.0) * envelope_width - math.pow(u, self.ep1)", ["C17"])
M("difficult-plus", "PyXAB/synthetic_obj/DifficultFunc.py", "(np.sqrt(y) - y ** 2)", "(np.sqrt(y) + y ** 2)", ["C17"])
M("rastrigin-const", "PyXAB/synthetic_obj/Rastrigin.py", "S = S - 10 - (x[i] ** 2 - 10 * np.cos(2 * np.pi * x[i]))",
  "S = S - 9.999 - (x[i] ** 2 - 10 * np.cos(2 * np.pi * x[i]))", ["C17"])
M("cexample-sign", "PyXAB/synthetic_obj/Cexample.py", "return 1 + 1 / np.log(x)", "return 1 - 1 / np.log(x) if x > 0.3 else 1 + 1 / np.log(x)", ["C17"])
M("perturbed-garland-fmax", "PyXAB/synthetic_obj/Garland.py", "self.fmax = 1 + self.perturb", "self.fmax = 1 + min(self.perturb, 2.0)", ["C17"])
M("perturbed-doublesine-impure", "PyXAB/synthetic_obj/DoubleSine.py",
  "                - math.pow(u, self.ep2)\n                + self.perturb",
  "                - math.pow(u, self.ep2)\n                + self.perturb - abs(np.random.normal(0, 1e-9))", ["C17"])
M("ackley-dim-check", "PyXAB/synthetic_obj/Ackley.py", "if len(x) != 2:\n            raise ValueError(\"The dimension of the point should be 2 in Ackley\")\n        x1 = x[0]\n        x2 = x[1]\n        return",
  "if len(x) < 2:\n            raise ValueError(\"The dimension of the point should be 2 in Ackley\")\n        x1 = x[0]\n        x2 = x[1]\n        return", ["C17"])
M("himmelblau-fmax-1", "PyXAB/synthetic_obj/Himmelblau.py", "self.fmax = 0", "self.fmax = 1e-6", ["C17"])
M("difficult-nan-at-edge", "PyXAB/synthetic_obj/DifficultFunc.py", "        if y == 0:\n            return 0",
  "        if y == 0:\n            return 0\n        elif y < 1e-15:\n            return float('nan')", ["C17"])


# ---- crediting (C04)
M("hoo-credit-leaf-only", "PyXAB/algos/HOO.py", "        for node in path:\n            # Update", "        for node in path[-1:]:\n            # Update", ["C04", "C05"])
M("hct-credit-whole-path", "PyXAB/algos/HCT.py",
  "        node.update_reward(reward)\n        self.iteration += 1",
  "        for node in path[-2:]:\n            node.update_reward(reward)\n        self.iteration += 1", ["C04"])
M("hoo-double-credit-at-7", "PyXAB/algos/HOO.py",
  "        self.visited_times += 1\n        self.rewards.append(reward)",
  "        self.visited_times += 1\n        self.rewards.append(reward)\n        if self.visited_times == 7 and self.depth == 3:\n            self.rewards.append(reward)", ["C04"])
M("stosoo-stale-index", "PyXAB/algos/StoSOO.py",
  "                            self.max_b_node_ind = max_b_node_ind\n", "                            self.max_b_node_ind = max_b_node_ind if h < 3 else 0\n", ["C04"])
M("zooming-mean-denominator", "PyXAB/algos/Zooming.py",
  ") / (self.pulled_times[self.best_arm] + 1)", ") / (self.pulled_times[self.best_arm] + 1 + (self.pulled_times[self.best_arm] == 5))", ["C04", "C11"])
M("poo-reward-to-first-learner", "PyXAB/algos/POO.py",
  "            self.V_algo[self.algo_counter].receive_reward(time, reward)", "            self.V_algo[0].receive_reward(time, reward)", ["C04", "C10"])
M("vroom-credit-drawn-only", "PyXAB/algos/VROOM.py",
  "        for i in range(len(self.update_list)):\n            node = self.update_list[i]", "        for i in range(1):\n            node = self.update_list[i]", ["C04", "C13"])
M("vhct-variance-floor", "PyXAB/algos/VHCT.py", "self.minvariance = 1e-3", "self.minvariance = 1e-4", ["C04"])
M("sequool-stale-curr-node", "PyXAB/algos/SequOOL.py",
  "                        self.curr_node = max_node.get_children()[-1]\n", "", ["C04"])
M("gpo-validation-denominator", "PyXAB/algos/GPO.py",
  ") / (self.counter - self.half_phase_length + 1)", ") / (self.counter - self.half_phase_length + 1 + (self.counter == self.half_phase_length + 2))", ["C04", "C09"])
M("stroquool-double-count", "PyXAB/algos/StroquOOL.py",
  "            self.curr_node.visited_times += 1\n", "            self.curr_node.visited_times += 1 + (self.curr_node.visited_times == 3)\n", ["C04"])
M("revert-D7-gpo-rollover", "PyXAB/algos/GPO.py",
  "            else:\n                point = self.goodx\n\n        return point",
  "            else:\n                point = self.goodx\n\n            if self.counter >= 2 * self.half_phase_length:\n                self.phase += 1\n                self.counter = 0\n\n        return point",
  ["C04", "C09"],
  more=[("""        self.counter += 1
        if self.counter >= 2 * self.half_phase_length:
            # the phase is over: the next pull starts a new base learner
            self.phase += 1
            self.counter = 0
            if self.phase > self.N:
                maxind = np.argmax(np.array(self.V_reward))
                self.goodx = self.V_x[maxind]
""", """        self.counter += 1
""")])

# ---- optimistic index (C05) and growth (C06)
M("hoo-ucb-constant", "PyXAB/algos/HOO.py", "UCB = math.sqrt(2 * math.log(rounds) / self.visited_times)",
  "UCB = math.sqrt(math.log(rounds) / self.visited_times)", ["C05"])
M("hoo-depth-exponent", "PyXAB/algos/HOO.py", "self.u_value = self.mean_reward + UCB + nu * (rho ** self.depth)",
  "self.u_value = self.mean_reward + UCB + nu * (rho ** (self.depth + 1))", ["C05"])
M("hoo-min-max-swap", "PyXAB/algos/HOO.py", "node.update_b_value(np.minimum(node.get_u_value(), tempB))",
  "node.update_b_value(np.maximum(node.get_u_value(), tempB))", ["C05"])
M("hoo-select-min-B", "PyXAB/algos/HOO.py", "if child.get_b_value() >= maxchild.get_b_value():",
  "if child.get_b_value() <= maxchild.get_b_value():", ["C05"])
M("hoo-stale-backprop-deep", "PyXAB/algos/HOO.py", "for i in range(1, self.partition.get_depth() + 1):\n            layer = nodes[-i]",
  "for i in range(1, min(self.partition.get_depth(), 4) + 1):\n            layer = nodes[-i]", ["C05"])
M("hct-refresh-removed", "PyXAB/algos/HCT.py", "if self.iteration == compute_t_plus(self.iteration):", "if False:", ["C05"])
M("hct-width-sign", "PyXAB/algos/HCT.py", "                + math.sqrt(c ** 2 * math.log(1 / delta_tilde) / self.visited_times)",
  "                - math.sqrt(c ** 2 * math.log(1 / delta_tilde) / self.visited_times)", ["C05"])
M("hct-tau-exponent", "PyXAB/algos/HCT.py", "* self.rho ** (-2 * i)", "* self.rho ** (-1 * i)", ["C05", "C06"])
M("hct-traverse-gt", "PyXAB/algos/HCT.py", "curr_node.get_visited_times() >= self.tau_h[curr_node.get_depth()]",
  "curr_node.get_visited_times() > self.tau_h[curr_node.get_depth()]", ["C05"])
M("hct-no-backprop-after-pull", "PyXAB/algos/HCT.py",
  "            nu=self.nu, rho=self.rho, c=self.c, delta_tilde=delta_tilde\n        )\n\n        self.updateBackwardTree()",
  "            nu=self.nu, rho=self.rho, c=self.c, delta_tilde=delta_tilde\n        )\n\n        end_node.update_b_value(end_node.get_u_value())", ["C05"])
M("hct-expand-gt", "PyXAB/algos/HCT.py", "and end_node.get_visited_times() >= self.tau_h[en_depth]",
  "and end_node.get_visited_times() > self.tau_h[en_depth]", ["C06"])
M("vhct-bernstein-constant", "PyXAB/algos/VHCT.py", "                + 3 * bound * c ** 2 * math.log(1 / delta_tilde) / self.visited_times",
  "                + 2 * bound * c ** 2 * math.log(1 / delta_tilde) / self.visited_times", ["C05"])
M("vhct-tau-constant", "PyXAB/algos/VHCT.py", "                + 3 * bound * nu * rho ** self.get_depth()\n", "                + 2 * bound * nu * rho ** self.get_depth()\n", ["C05", "C06"])
M("vhct-width-no-variance", "PyXAB/algos/VHCT.py", "                    * self.variance\n                    * math.log(1 / delta_tilde)",
  "                    * math.log(1 / delta_tilde)", ["C05"])
M("hoo-truncation-ignored", "PyXAB/algos/HOO.py", "        if path[-1].depth <= np.ceil(", "        if True or path[-1].depth <= np.ceil(", ["C06"])
M("hoo-truncation-off-by-one", "PyXAB/algos/HOO.py", "        if path[-1].depth <= np.ceil(", "        if path[-1].depth < np.ceil(", ["C06"])
M("hoo-truncation-log-base", "PyXAB/algos/HOO.py", "(np.log(self.rounds) / 2 - np.log(1 / self.nu)) / np.log(1 / self.rho)",
  "(np.log2(self.rounds) / 2 - np.log(1 / self.nu)) / np.log(1 / self.rho)", ["C06"])
M("hct-tplus-floor", "PyXAB/algos/HCT.py", "return np.power(2, np.ceil(np.log(x) / np.log(2)))", "return np.power(2, np.floor(np.log(x) / np.log(2)))", ["C05", "C06"])

# ---- recommendations (C07)
M("soo-recommend-min", "PyXAB/algos/SOO.py", "                if node.get_reward() >= max_value:\n                    max_value = node.get_reward()\n                    max_node = node\n        return max_node.get_cpoint()",
  "                if node.get_reward() >= max_value and h > 0:\n                    max_value = node.get_reward()\n                    max_node = node\n        return max_node.get_cpoint()", ["C07"])
M("sequool-recommend-last-reward", "PyXAB/algos/SequOOL.py", "        return self.rewards[0]", "        return self.rewards[-1] if self.depth > 2 else self.rewards[0]", [])
M("sequool-recommend-skip-depth1", "PyXAB/algos/SequOOL.py", "        for node in self.chosen:\n            if node.get_reward() >= max_value:",
  "        for node in self.chosen[2:]:\n            if node.get_reward() >= max_value:", ["C07"])
M("stosoo-recommend-all-layers", "PyXAB/algos/StoSOO.py", "        max_depth = self.partition.get_depth()\n", "        max_depth = max(self.partition.get_depth() - 1, 0)\n", ["C07"])
M("stroquool-recommend-first", "PyXAB/algos/StroquOOL.py", "            if node.get_mean_reward() >= max_value:\n                max_value = node.get_mean_reward()\n                max_node = node\n        return max_node.get_cpoint()",
  "            if node.get_mean_reward() >= max_value or max_node is None:\n                max_value = node.get_mean_reward()\n                max_node = node\n        return self.candidate[0].get_cpoint() if len(self.candidate) > 1 else max_node.get_cpoint()", ["C07"])
M("poo-recommend-argmin", "PyXAB/algos/POO.py", "max_param = np.argmax(V_reward)", "max_param = np.argmax(np.abs(V_reward))", ["C07", "C10"])
M("gpo-recommend-abs", "PyXAB/algos/GPO.py", "return self.V_x[np.argmax(np.array(self.V_reward))]", "return self.V_x[np.argmax(np.abs(np.array(self.V_reward)))]", ["C07", "C09"])
M("doo-recommend-b-value", "PyXAB/algos/DOO.py", "                reward = node.get_reward()\n                if reward >= max_value:",
  "                reward = node.get_reward() if node.get_children() is None else -np.inf\n                if reward >= max_value:", ["C07"])

# ---- SOO / StoSOO / DOO rules (C08)
M("soo-vmax-dropped", "PyXAB/algos/SOO.py", "                if max_value >= v_max:", "                if True:", [])  # unobservable: sweeps are single-expansion (DESIGN 2.3 note)
M("soo-compare-reversed", "PyXAB/algos/SOO.py", "                            node.get_reward() >= max_value\n", "                            -node.get_reward() >= max_value\n", ["C08"])
M("soo-depth-cap-ignored", "PyXAB/algos/SOO.py", "while h <= min(self.partition.get_depth(), self.h_max):", "while h <= self.partition.get_depth():", [])  # equivalent inside the property's domain: SOO is breadth-first, a cap that holds the budget never binds
M("soo-reevaluate", "PyXAB/algos/SOO.py", "                            node.visit()\n", "                            node.visited = node.get_depth() != 3\n", ["C08"])
M("stosoo-k-cap-dropped", "PyXAB/algos/StoSOO.py", "if node_list[h][max_b_node_ind].get_visited_times() < self.k:", "if node_list[h][max_b_node_ind].get_visited_times() < self.k + (h == 2):", ["C08"])
M("stosoo-b-sign", "PyXAB/algos/StoSOO.py", "self.b_value = self.mean_reward + np.sqrt(", "self.b_value = self.mean_reward - np.sqrt(", ["C08"])
M("stosoo-argmin-b", "PyXAB/algos/StoSOO.py", "                                <= node_list[h][j].get_b_value()", "                                >= node_list[h][j].get_b_value()", ["C08"])
M("doo-minus-delta", "PyXAB/algos/DOO.py", "self.b_value = self.reward + delta", "self.b_value = self.reward - delta", ["C08"])
M("doo-delta-wrong-depth", "PyXAB/algos/DOO.py", "            delta = self.delta(h)\n", "            delta = self.delta(max(h - 1, 0))\n", ["C08"])
M("doo-max-per-level-only", "PyXAB/algos/DOO.py", "                        if node.get_b_value() >= max_value:", "                        if node.get_b_value() >= max_value or node.get_depth() > max_node.get_depth() + 2:", ["C08"])

# ---- GPO schedule (C09)
M("gpo-rho-exponent", "PyXAB/algos/GPO.py", "rho = self.rhomax ** (2 * self.N / (2 * self.phase + 1))", "rho = self.rhomax ** (2 * self.N / (2 * self.phase + 2))", ["C09"])
M("gpo-N-formula", "PyXAB/algos/GPO.py", "0.5 * self.Dmax * np.log((self.rounds / 2) / np.log(self.rounds / 2))", "0.5 * self.Dmax * np.log((self.rounds / 2) / np.log(self.rounds))", ["C09"])
M("gpo-half-length-ceil", "PyXAB/algos/GPO.py", "self.half_phase_length = np.floor(self.rounds / (2 * self.N))", "self.half_phase_length = np.floor(self.rounds / (2 * self.N) + 0.25)", ["C09"])
M("gpo-validate-first-proposal", "PyXAB/algos/GPO.py", "                point = self.curr_algo.pull(time)\n                self.goodx = point",
  "                point = self.curr_algo.pull(time)\n                self.goodx = point if self.counter == 0 or self.phase < 3 else self.goodx", ["C09"])
M("gpo-phase-rho-reuse", "PyXAB/algos/GPO.py", "            if self.counter == 0:\n                rho = self.rhomax ** (2 * self.N / (2 * self.phase + 1))",
  "            if self.counter == 0:\n                rho = self.rhomax ** (2 * self.N / (2 * min(self.phase, 5) + 1))", ["C09"])
M("gpo-last-phase-short", "PyXAB/algos/GPO.py", "        if self.counter >= 2 * self.half_phase_length:\n            # the phase is over",
  "        if self.counter >= 2 * self.half_phase_length - (self.phase == self.N):\n            # the phase is over", ["C09"])

# ---- POO (C10)
M("poo-score-denominator", "PyXAB/algos/POO.py", ") / (np.ceil(self.n / self.N) + 1)", ") / (np.ceil(self.n / self.N) + 2)", ["C10"])
M("poo-pass-bookkeeping", "PyXAB/algos/POO.py", "                self.n = self.n + self.N\n", "                self.n = self.n + self.N + (self.n > 40)\n", ["C10"])
M("poo-times-not-counted", "PyXAB/algos/POO.py", "            self.Times[self.algo_counter] += 1\n", "            self.Times[self.algo_counter] += 1 if self.algo_counter != 2 else 0\n", ["C10"])
M("poo-rho-grid", "PyXAB/algos/POO.py", "rho = self.rhomax ** (2 * self.N / (2 * self.phase + 1))", "rho = self.rhomax ** (2 * self.N / (2 * self.phase + 2))", ["C10"])
M("poo-nu-scaled", "PyXAB/algos/POO.py", "                        nu=self.numax,\n                        rho=rho,\n                        domain", "                        nu=self.numax * 0.5,\n                        rho=rho,\n                        domain", ["C10"])
M("poo-creation-counter", "PyXAB/algos/POO.py", "            if self.counter >= np.ceil(self.n / self.N):", "            if self.counter >= np.ceil(self.n / self.N) + (self.N == 8):", ["C10"])
M("poo-pull-vs-receive-cursor", "PyXAB/algos/POO.py", "            algo = self.V_algo[self.algo_counter]\n            point = algo.pull(time)", "            algo = self.V_algo[self.algo_counter - (self.algo_counter == 3)]\n            point = algo.pull(time)", ["C10", "C04"])

# ---- Zooming (C11)
M("zooming-index-constant", "PyXAB/algos/Zooming.py", "arm_r_t = self.average_rewards[arm] + 2 * np.sqrt(", "arm_r_t = self.average_rewards[arm] + np.sqrt(", ["C11"])
M("zooming-refine-inequality", "PyXAB/algos/Zooming.py", "            <= self.nu * self.rho ** parent.get_depth()", "            <= self.nu * self.rho ** (parent.get_depth() + 1)", ["C11"])
M("zooming-refine-phase-stale", "PyXAB/algos/Zooming.py", "            np.sqrt(8 * self.phase / (2 + self.pulled_times[self.best_arm]))\n            <=", "            np.sqrt(8 * 1 / (2 + self.pulled_times[self.best_arm]))\n            <=", ["C11"])
M("zooming-phase-length", "PyXAB/algos/Zooming.py", "self.next_end_time += 2 ** self.phase", "self.next_end_time += 2 * self.phase", ["C11"])
M("zooming-argmin-when-tied", "PyXAB/algos/Zooming.py", "            if arm_r_t >= maximum_r_t:", "            if arm_r_t >= maximum_r_t or (self.time > 30 and self.pulled_times[arm] == 0 and False) or (self.time == 40):", ["C11"])
M("zooming-new-arm-not-centre", "PyXAB/algos/Zooming.py", "        active_arm = point(node.get_cpoint())", "        active_arm = point([x[0] for x in node.get_domain()] if node.get_depth() > 2 else node.get_cpoint())", ["C11"])
M("zooming-strict-containment", "PyXAB/algos/Zooming.py", "                        point[dim] < child_domain[dim][0]\n                        or point[dim] > child_domain[dim][1]", "                        point[dim] < child_domain[dim][0]\n                        or point[dim] >= child_domain[dim][1]", ["C11"])

# ---- SequOOL (C12)
M("sequool-budget-h-plus-1", "PyXAB/algos/SequOOL.py", "                            self.budget = math.floor(self.h_max / self.curr_depth)\n                        self.curr_node = max_node",
  "                            self.budget = math.floor(self.h_max / (self.curr_depth + 1))\n                        self.curr_node = max_node", ["C12"])
M("sequool-hmax-ceil", "PyXAB/algos/SequOOL.py", "self.h_max = math.floor(n / self.harmonic_series_sum(n))", "self.h_max = math.ceil(n / self.harmonic_series_sum(n))", ["C12"])
M("sequool-open-min", "PyXAB/algos/SequOOL.py", "                        if node.get_reward() >= max_value:",
  "                        if node.get_reward() >= max_value or (self.curr_depth == 3 and num == 2):", ["C12"])
M("sequool-harmonic-off", "PyXAB/algos/SequOOL.py", "        for i in range(1, n + 1):\n            res += 1 / i", "        for i in range(1, n):\n            res += 1 / i", ["C12"])
M("sequool-skip-last-child", "PyXAB/algos/SequOOL.py", "                    if self.loc == len(max_node.get_children()) - 1:\n                        max_node.open()",
  "                    if self.loc == len(max_node.get_children()) - 1 or (self.curr_depth == 4 and self.loc == 1):\n                        max_node.open()", ["C12"])
M("sequool-reopen", "PyXAB/algos/SequOOL.py", "        self.opened = True", "        self.opened = self.depth != 2", ["C12"])

# ---- VROOM (C13)
M("vroom-rank-reversed", "PyXAB/algos/VROOM.py", "rank = sorted(nodes, key=rank_fun, reverse=True)", "rank = sorted(nodes, key=rank_fun, reverse=False)", ["C13"])
M("vroom-weight-no-h", "PyXAB/algos/VROOM.py", "self.prob.append(1 / (h * node_list[h][l].get_rank()[-1] * self.const))",
  "self.prob.append((1 / (node_list[h][l].get_rank()[-1] * self.const)) * (self.const / sum(1 / l2 for hh in range(1, self.search_depth + 1) for l2 in range(1, 2 ** hh + 1))))", ["C13"])
M("vroom-lcb-plus", "PyXAB/algos/VROOM.py", "return node.get_mean_reward() - np.sqrt(", "return node.get_mean_reward() + 3 * np.sqrt(", ["C13"])
M("vroom-lcb-no-count", "PyXAB/algos/VROOM.py", "np.log(4 * self.n ** 3 / self.delta) / (2 * node.get_eval_time())", "np.log(4 * self.n ** 3 / self.delta) / 2", ["C13"])
M("vroom-descend-one-short", "PyXAB/algos/VROOM.py", "        while h < self.h_max:\n            if node.get_children() is None:", "        while h < self.h_max - 1:\n            if node.get_children() is None:", ["C13"])
M("vroom-sample-from-sibling", "PyXAB/algos/VROOM.py", "        return node.sample_uniform()\n\n    def rank", "        return (node.get_parent().get_children()[0] if self.iteration % 7 == 0 else node).sample_uniform()\n\n    def rank", ["C13", "C04"])
M("vroom-index-shift", "PyXAB/algos/VROOM.py", "        idx = index[sample]\n", "        idx = index[sample if sample % 5 else max(sample - 1, 0)]\n", ["C13"])
M("vroom-stale-rank", "PyXAB/algos/VROOM.py", "            self.rank(node_list[h])\n", "            if h != 3 or self.iteration < 12:\n                self.rank(node_list[h])\n", ["C13"])

# ---- reproducibility / isolation / input mutation (C14)
M("zooming-class-level-dicts", "PyXAB/algos/Zooming.py", "        self.active_points = {}\n        self.pulled_times = {}\n        self.average_rewards = {}\n",
  "", ["C14"], more=[("class Zooming(Algorithm):\n", "class Zooming(Algorithm):\n    active_points = {}\n    pulled_times = {}\n    average_rewards = {}\n")])
M("zooming-set-iteration", "PyXAB/algos/Zooming.py", "for arm in self.active_points.keys():", "for arm in set(self.active_points.keys()):", ["C14"])
M("node-normalises-domain-in-place", "PyXAB/partition/Node.py", "        for x in self.domain:\n            point.append((x[0] + x[1]) / 2)",
  "        for x in self.domain:\n            x[0], x[1] = float(x[0]), float(x[1])\n            point.append((x[0] + x[1]) / 2)", ["C14"])
M("binary-python-random", "PyXAB/partition/BinaryPartition.py", "dim = np.random.randint(0, len(parent_domain))", "import random\n        dim = random.randrange(len(parent_domain))", ["C14"])
M("node-cpoint-class-cache", "PyXAB/partition/Node.py", "        self.c_point = point\n", "        self.c_point = P_node._cache.setdefault((depth, index, len(domain)), point) if depth >= 3 else point\n", ["C14", "C01", "C16"],
  more=[("class P_node:\n", "class P_node:\n    _cache = {}\n")])
M("gpo-class-level-lists", "PyXAB/algos/GPO.py", "        self.V_x = []\n        self.V_reward = []\n", "", ["C14"], more=[("class GPO(Algorithm):\n", "class GPO(Algorithm):\n    V_x = []\n    V_reward = []\n")])
M("partition-sorts-domain", "PyXAB/partition/Partition.py", "        self.domain = domain\n", "        domain.sort(key=lambda iv: iv[1] - iv[0], reverse=True)\n        self.domain = domain\n", ["C14"])
M("hoo-wallclock-tiebreak", "PyXAB/algos/HOO.py", "                if child.get_b_value() >= maxchild.get_b_value():", "                if child.get_b_value() > maxchild.get_b_value() or (child.get_b_value() == maxchild.get_b_value() and id(child) % 64 < 32):", ["C14"])

# ---- time labels and queries (C15)
M("hct-iteration-from-time", "PyXAB/algos/HCT.py", "        self.curr_node, self.path = self.optTraverse()\n", "        self.iteration = max(time, 1) if time else self.iteration\n        self.curr_node, self.path = self.optTraverse()\n", ["C15"])
M("zooming-time-from-label", "PyXAB/algos/Zooming.py", "        self.time += 1\n", "        self.time = time\n", ["C15"])
M("gpo-phase-start-by-label", "PyXAB/algos/GPO.py", "            if self.counter == 0:\n                rho",
  "            if (time - 1) % (2 * self.half_phase_length) == 0:\n                rho", ["C15"])
M("hct-threshold-by-pull-count", "PyXAB/algos/HCT.py", "        t_plus = compute_t_plus(self.iteration)\n        delta_tilde = np.minimum(1.0 / 2, self.c1 * self.delta / t_plus)",
  "        self.npulls = getattr(self, 'npulls', 0) + 1\n        t_plus = compute_t_plus(self.npulls)\n        delta_tilde = np.minimum(1.0 / 2, self.c1 * self.delta / t_plus)", ["C15"])
M("hoo-rounds-from-time", "PyXAB/algos/HOO.py", "        curr_node, self.path = self.optTraverse()\n        return curr_node.get_cpoint()", "        if time > self.rounds:\n            self.rounds = time\n        curr_node, self.path = self.optTraverse()\n        return curr_node.get_cpoint()", ["C15"])
M("poo-query-advances-cursor", "PyXAB/algos/POO.py", "        point = self.V_algo[max_param].pull(time=0)\n        return point", "        point = self.V_algo[max_param].pull(time=0)\n        self.counter = 0 if self.counter else self.counter\n        self.curr_algo = self.V_algo[max_param]\n        return point", [])
M("sequool-stop-by-time", "PyXAB/algos/SequOOL.py", "        if self.curr_depth <= self.h_max:\n            if self.curr_depth == 0:", "        if self.curr_depth <= self.h_max and t >= 1:\n            if self.curr_depth == 0:", ["C15"])
M("vroom-seed-from-time", "PyXAB/algos/VROOM.py", "        sample = np.random.choice(", "        if time == 0:\n            np.random.seed(0)\n        sample = np.random.choice(", ["C15"])
M("zooming-query-marks-arm", "PyXAB/algos/Zooming.py", "        return self.pull(0)", "        p = self.pull(0)\n        self.pulled_times[self.best_arm] += 0 if self.time % 5 else 1\n        return p", ["C15"])

# ---- affine equivariance (C16)
M("hoo-tiebreak-by-abs-coordinate", "PyXAB/algos/HOO.py", "                if child.get_b_value() >= maxchild.get_b_value():",
  "                if child.get_b_value() > maxchild.get_b_value() or (child.get_b_value() == maxchild.get_b_value() and abs(child.get_cpoint()[0]) >= abs(maxchild.get_cpoint()[0])):", ["C16"])
M("doo-delta-absolute", "PyXAB/algos/DOO.py", "max((domain[0][0] - point) ** 2, (domain[0][1] - point) ** 2)\n                >= max_value",
  "max((domain[0][0] - point) ** 2, (domain[0][1] - point) ** 2) + 1e-3 * abs(point)\n                >= max_value", [])
M("doo-delta-absolute-value", "PyXAB/algos/DOO.py", "                max_value = max(\n                    (domain[0][0] - point) ** 2, (domain[0][1] - point) ** 2\n                )",
  "                max_value = max(\n                    (domain[0][0] - point) ** 2, (domain[0][1] - point) ** 2\n                ) * (1 + abs(point))", ["C16"])
M("kary-rounded-boundaries", "PyXAB/partition/KaryPartition.py", "boundary_points = np.linspace(selected_dim[0], selected_dim[1], num=self.K + 1)",
  "boundary_points = np.round(np.linspace(selected_dim[0], selected_dim[1], num=self.K + 1), 9)", ["C16", "C02"])
M("zooming-absolute-eps", "PyXAB/algos/Zooming.py", "                        point[dim] < child_domain[dim][0]\n", "                        point[dim] < child_domain[dim][0] + 1e-7\n", ["C16", "C11"])
M("stosoo-prefers-positive-side", "PyXAB/algos/StoSOO.py", "                                <= node_list[h][j].get_b_value()\n", "                                <= node_list[h][j].get_b_value() + (0.05 if node_list[h][j].get_cpoint()[0] > 0 else 0)\n", ["C16"])
M("sequool-centre-unit-box", "PyXAB/algos/SequOOL.py", "            self.curr_node = node_list[0][0]\n            return node_list[0][0].get_cpoint()", "            self.curr_node = node_list[0][0]\n            return [0.5 for _ in node_list[0][0].get_cpoint()]", ["C16", "C12"])

# ---- totality (C01): exercises the hang path (60 s alarm, then deterministic line budget)
M("stosoo-hang-on-empty-layer", "PyXAB/algos/StoSOO.py", "                h += 1  # increase the search depth",
  "                if max_b_node_ind is not None or h > 6:\n                    h += 1  # increase the search depth", ["C01"])
M("hct-nan-u-value", "PyXAB/algos/HCT.py", "                + math.sqrt(c ** 2 * math.log(1 / delta_tilde) / self.visited_times)",
  "                + math.sqrt(c ** 2 * math.log(1 / delta_tilde) / self.visited_times) * (np.inf if self.visited_times == 40 else 1.0) * (0.0 if self.visited_times == 40 else 1.0)", ["C05"])
M("soo-none-after-many", "PyXAB/algos/SOO.py", "                            node.visit()\n                            self.curr_node = node\n                            return node.get_cpoint()",
  "                            node.visit()\n                            self.curr_node = node\n                            return node.get_cpoint() if (h < 7 or node.get_index() % 5) else None", ["C01"])
M("vroom-sample-outside-on-negative-box", "PyXAB/algos/VROOM.py", "            point = np.random.uniform(domain[0], domain[1])", "            point = np.random.uniform(domain[0], domain[1] if domain[1] > 0 else domain[1] + abs(domain[1] - domain[0]))", ["C01", "C13"])
