"""Hand-written mutants used by tools/mutation_smoke.py.  Each compiles and passes the
repository's 124 tests (checked when added); 'props' = checks expected to catch it."""

MUTANTS = []


def M(id, file, old, new, props, all=False):
    MUTANTS.append({"id": id, "file": file, "old": old, "new": new, "props": props, "all": all})


# ---- partitions / geometry (C02, C16)
M("node-midpoint-lo-plus-half-hi", "PyXAB/partition/Node.py",
  "point.append((x[0] + x[1]) / 2)", "point.append(x[0] + x[1] / 2)", ["C02", "C01", "C16"])
M("binary-split-lo-plus-half-hi", "PyXAB/partition/BinaryPartition.py",
  "domain1[dim] = [selected_dim[0], (selected_dim[0] + selected_dim[1]) / 2]",
  "domain1[dim] = [selected_dim[0], selected_dim[0] + selected_dim[1] / 2]", ["C02"])
M("kary-linspace-num-K", "PyXAB/partition/KaryPartition.py",
  "num=self.K + 1", "num=self.K + 1, endpoint=False", ["C02"])
M("randkary-last-not-pinned", "PyXAB/partition/RandomKaryPartition.py",
  "            if i != self.K - 1:\n                boundary_point_1 = np.random.uniform(boundary_point_0, selected_dim[1])\n            else:\n                boundary_point_1 = selected_dim[1]",
  "            boundary_point_1 = np.random.uniform(boundary_point_0, selected_dim[1])", ["C02"])
M("randbinary-split-outside", "PyXAB/partition/RandomBinaryPartition.py",
  "domain2[dim] = [split_point, selected_dim[1]]",
  "domain2[dim] = [np.nextafter(split_point, np.inf), selected_dim[1]]", ["C02"])
M("dimbinary-wrong-half", "PyXAB/partition/DimensionBinaryPartition.py",
  "comb2 = [split_point, selected_dim[1]]", "comb2 = [split_point, selected_dim[1]] if dim == 0 else [selected_dim[0], split_point]", ["C02"])

# ---- reverts of the repaired defects D1..D7
M("revert-D1-kary-alias", "PyXAB/partition/KaryPartition.py",
  "self.node_list.append(list(new_nodes))", "self.node_list.append(new_nodes)", ["C03"])
M("revert-D1-randkary-alias", "PyXAB/partition/RandomKaryPartition.py",
  "self.node_list.append(list(new_nodes))", "self.node_list.append(new_nodes)", ["C03"])
M("revert-D1-dimbinary-alias", "PyXAB/partition/DimensionBinaryPartition.py",
  "self.node_list.append(list(children_list))", "self.node_list.append(children_list)", ["C03"])
M("revert-D2-doo-delta", "PyXAB/algos/DOO.py",
  "        else:\n            self.delta = delta\n", "", ["C01"])
M("revert-D3-doo-newlayer", "PyXAB/algos/DOO.py",
  "newlayer=(max_node.get_depth() >= self.partition.get_depth()),", "newlayer=True,", ["C03"])
M("revert-D4-doo-reward0", "PyXAB/algos/DOO.py",
  "self.reward = -np.inf", "self.reward = 0", ["C07"])
M("revert-D5-hct-leaf", "PyXAB/algos/HCT.py",
  "            end_node.get_children() is None\n            and end_node.get_visited_times() >= self.tau_h[en_depth]",
  "            end_node.get_visited_times() >= self.tau_h[en_depth]", ["C03", "C04", "C06"])
M("revert-D5-vhct-leaf", "PyXAB/algos/VHCT.py",
  "            end_node.get_children() is None\n            and end_node.get_visited_times() >= end_node.get_tau_hi_value()",
  "            end_node.get_visited_times() >= end_node.get_tau_hi_value()", ["C03", "C04", "C06"])
M("revert-D6-zooming-arm", "PyXAB/algos/Zooming.py",
  "                if not child_updated and arm_reassigned:", "                if False:", ["C11"])

# ---- structure (C03)
M("binary-index-off", "PyXAB/partition/BinaryPartition.py",
  "index=2 * parent.get_index(),", "index=2 * parent.get_index() + 1,", ["C03"])
M("kary-index-order", "PyXAB/partition/KaryPartition.py",
  "index=self.K * parent.get_index() - (self.K - i - 1),", "index=self.K * parent.get_index() - i,", ["C03"])
M("dimbinary-index-base", "PyXAB/partition/DimensionBinaryPartition.py",
  "index=num_children * (parent.get_index() - 1) + i + 1,", "index=2 * (parent.get_index() - 1) + i + 1,", ["C03"])
M("hoo-newlayer-inverted", "PyXAB/algos/HOO.py",
  "if parent.get_depth() >= self.partition.get_depth():", "if parent.get_depth() > self.partition.get_depth():", ["C01"])
M("randbinary-depth-not-bumped", "PyXAB/partition/RandomBinaryPartition.py",
  "            self.node_list.append(new_deepest)\n            self.depth += 1",
  "            self.node_list.append(new_deepest)\n            self.depth = len(self.node_list) - 1 if len(self.node_list) < 6 else self.depth", ["C03"])

# ---- objectives (C17)
M("garland-4.1", "PyXAB/synthetic_obj/Garland.py", "return x * (1 - x) * (4 - np.sqrt(np.abs(np.sin(60 * x))))",
  "return x * (1 - x) * (4.02 - np.sqrt(np.abs(np.sin(60 * x))))", ["C17"])
M("himmelblau-sign", "PyXAB/synthetic_obj/Himmelblau.py", "return -((x1 ** 2 + x2 - 11) ** 2) - (x1 + x2 ** 2 - 7) ** 2",
  "return -((x1 ** 2 + x2 - 11) ** 2) + (x1 + x2 ** 2 - 7) ** 2", ["C17"])
M("ackley-const", "PyXAB/synthetic_obj/Ackley.py", "            - np.e\n            - 20\n        )\n\n\nclass Ackley_Normalized",
  "            - np.e\n            - 19.9999999\n        )\n\n\nclass Ackley_Normalized", ["C17"])
M("doublesine-last-term", "PyXAB/synthetic_obj/DoubleSine.py",
  "return mysin2(math.log(u, 2) / 2.0) * envelope_width - math.pow(u, self.ep2)",
  "return mysin2(math.log(u, 2) / 2.0) * envelope_width - math.pow(u, self.ep1)", ["C17"])
M("difficult-plus", "PyXAB/synthetic_obj/DifficultFunc.py", "(np.sqrt(y) - y ** 2)", "(np.sqrt(y) + y ** 2)", ["C17"])
M("rastrigin-const", "PyXAB/synthetic_obj/Rastrigin.py", "S = S - 10 - (x[i] ** 2 - 10 * np.cos(2 * np.pi * x[i]))",
  "S = S - 9.999 - (x[i] ** 2 - 10 * np.cos(2 * np.pi * x[i]))", ["C17"])
M("cexample-sign", "PyXAB/synthetic_obj/Cexample.py", "return 1 + 1 / np.log(x)", "return 1 - 1 / np.log(x) if x > 0.3 else 1 + 1 / np.log(x)", ["C17"])
M("perturbed-garland-fmax", "PyXAB/synthetic_obj/Garland.py", "self.fmax = 1 + self.perturb", "self.fmax = 1 + min(self.perturb, 2.0)", ["C17"])
M("perturbed-doublesine-impure", "PyXAB/synthetic_obj/DoubleSine.py",
  "                - math.pow(u, self.ep2)\n                + self.perturb",
  "                - math.pow(u, self.ep2)\n                + self.perturb - abs(np.random.normal(0, 1e-9))", ["C17"])
M("ackley-dim-check", "PyXAB/synthetic_obj/Ackley.py", "if len(x) != 2:\n            raise ValueError(\"The dimension of the point should be 2 in Ackley\")\n        x1 = x[0]\n        x2 = x[1]\n        return",
  "if len(x) < 2:\n            raise ValueError(\"The dimension of the point should be 2 in Ackley\")\n        x1 = x[0]\n        x2 = x[1]\n        return", ["C17"])
M("himmelblau-fmax-1", "PyXAB/synthetic_obj/Himmelblau.py", "self.fmax = 0", "self.fmax = 1e-6", ["C17"])
M("difficult-nan-at-edge", "PyXAB/synthetic_obj/DifficultFunc.py", "        if y == 0:\n            return 0",
  "        if y == 0:\n            return 0\n        elif y < 1e-15:\n            return float('nan')", ["C17"])
