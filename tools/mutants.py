"""Hand-written mutants used by tools/mutation_smoke.py.  Each compiles and passes the
repository's 124 tests (checked when added); 'props' = checks expected to catch it."""

MUTANTS = []


def M(id, file, old, new, props, all=False):
    MUTANTS.append({"id": id, "file": file, "old": old, "new": new, "props": props, "all": all})


# ---- partitions / geometry (C02, C16)
M("node-midpoint-lo-plus-half-hi", "PyXAB/partition/Node.py",
  "point.append((x[0] + x[1]) / 2)", "point.append(x[0] + x[1] / 2)", ["C02", "C01", "C16"])
M("binary-split-lo-plus-half-hi", "PyXAB/partition/BinaryPartition.py",
  "domain1[dim] = [selected_dim[0], (selected_dim[0] + selected_dim[1]) / 2]",
  "domain1[dim] = [selected_dim[0], selected_dim[0] + selected_dim[1] / 2]", ["C02"])
M("kary-linspace-num-K", "PyXAB/partition/KaryPartition.py",
  "num=self.K + 1", "num=self.K + 1, endpoint=False", ["C02"])
M("randkary-last-not-pinned", "PyXAB/partition/RandomKaryPartition.py",
  "            if i != self.K - 1:\n                boundary_point_1 = np.random.uniform(boundary_point_0, selected_dim[1])\n            else:\n                boundary_point_1 = selected_dim[1]",
  "            boundary_point_1 = np.random.uniform(boundary_point_0, selected_dim[1])", ["C02"])
M("randbinary-split-outside", "PyXAB/partition/RandomBinaryPartition.py",
  "domain2[dim] = [split_point, selected_dim[1]]",
  "domain2[dim] = [np.nextafter(split_point, np.inf), selected_dim[1]]", ["C02"])
M("dimbinary-wrong-half", "PyXAB/partition/DimensionBinaryPartition.py",
  "comb2 = [split_point, selected_dim[1]]", "comb2 = [split_point, selected_dim[1]] if dim == 0 else [selected_dim[0], split_point]", ["C02"])
