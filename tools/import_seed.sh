#!/bin/sh
# tools/import_seed.sh <ID> <name> : copy a sub-agent's deliverables from /tmp/seed/<ID> into /verif/seeded/<name>
ID=$1; NAME=$2
cd "$(dirname "$0")/.." || exit 2
mkdir -p seeded/$NAME
git -C ${SEEDROOT:-/tmp/seed}/$ID diff -- PyXAB > seeded/$NAME/patch.diff
cp ${SEEDROOT:-/tmp/seed}/$ID/demo.py seeded/$NAME/demo.py
cp ${SEEDROOT:-/tmp/seed}/$ID/NOTES.md seeded/$NAME/NOTES.md 2>/dev/null
[ -f seeded/$NAME/meta.json ] || cat > seeded/$NAME/meta.json <<EOM
{
 "property": "$ID",
 "checks": ["$ID"],
 "source": "independent sub-agent given only the property text and a scratch worktree",
 "needs_to_manifest": "",
 "confirmed": ""
}
EOM
wc -l seeded/$NAME/patch.diff
