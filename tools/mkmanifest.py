#!/usr/bin/env python3
"""Regenerates MANIFEST.json from the table below (kept in one place so that it is
always valid).  Run: python3 tools/mkmanifest.py"""
import json
import os

HERE = os.path.dirname(os.path.dirname(os.path.abspath(__file__)))

BASELINE_OFF = ("cd /repo && env -u PYXAB_VERIF /venv/bin/python -m pytest -ra -q -p no:cacheprovider --timeout=900 "
                "--continue-on-collection-errors --junitxml=/tmp/pyxab_baseline.junit.xml")

CLAIMED = {
    "C01": dict(
        technique="property-based testing (Hypothesis): generated configurations x reward histories x injected RNG outcomes; totality + box-membership oracle; exception bucketing; deterministic step budget for 'never hangs'",
        text="Exploration: every generated configuration/history is run through the real pull/receive_reward/get_last_point loop and judged by an explicit totality + domain-membership predicate after every call. Absence of a counter-example is evidence, not proof; the evidence file reports the measured class distribution (algorithm x partition pairs).",
        note="Preconditions of DESIGN 2.2 are assumed (documented parameter ranges, depth caps that hold the budget, T <= n). Open findings D8-D11 (known_findings.json) are excluded by full signature and reported as KNOWN-FINDING lines. 'Never hangs' = 60 s alarm, then a deterministic budget of 2e7 traced lines per call.",
        ref="4/C01"),
    "C02": dict(
        technique="property-based testing (Hypothesis): generated boxes x expansion orders x injected split dimensions/fractions (end points included); exact geometric validity predicate (grid tiling with Fraction arithmetic) after every split, also riding on generated algorithm runs; differential sub-check on array-typed boxes; thorough tier adds a coverage-guided atheris/libFuzzer campaign that drives the same generator (Hypothesis fuzz_one_input) against the same oracle",
        text="Exploration with an oracle that is exact on every explored instance: arity, containment, union == parent and disjoint interiors on the grid induced by all child boundaries (which forces bit-identical shared faces), only split dimensions change, equal sides (8 ulp) for the equal-size classes, centre == midpoint (1 ulp), leaves tile the root. The continuum of real boxes is sampled, not enclosed.",
        note="Boxes finite with lo<hi and |x|<=1e100. Split outcomes are injected by replacing np.random.randint/uniform in-process with stubs that compute lo+(hi-lo)*u exactly as NumPy documents, u in [0,1). Boxes include the one-list-object-for-every-axis form [[lo,hi]]*d. Sub-check 'ndarray' compares the tree grown from a NumPy-array-typed box cell for cell with the tree grown from the same box as a list of lists; an exception on the array-typed box is inconclusive. The atheris campaign is an extra of the thorough tier: if it cannot run it is recorded as skipped and can neither raise an alarm nor fail the check.",
        ref="4/C02"),
    "C03": dict(
        technique="stateful property-based testing (Hypothesis RuleBasedStateMachine over deepen/expand histories) plus the same structural invariant after every round of generated runs of every algorithm",
        text="Exploration: a rule-based state machine generates interleavings of deepen() and make_children(leaf, newlayer=callers' convention) on every partition class; after every step an invariant compares the per-depth node lists with the tree reachable from the root (each cell once, right layer, parent/child links both ways, no child list aliasing a layer, depth bookkeeping, label arithmetic). The same invariant is evaluated on every partition created by generated algorithm runs (including every learner of POO/GPO) after every round, and on enumerated deep histories (chains of 10..520 expansions along one path followed by deepen/expand).",
        note="Only leaves are expanded directly, with the documented newlayer convention (the property's quantifier). Histories are capped at 3000 cells. A crash of the code under test aborts the case (C01's business).",
        ref="4/C03"),
    "C17": dict(
        technique="property-based testing (Hypothesis, target()-guided) over structured generators of points of each objective's box; bound/finite/purity oracle; enumerated maximiser and wrong-dimension sub-checks; thorough tier adds a coverage-guided atheris/libFuzzer campaign that drives the same generator (Hypothesis fuzz_one_input) against the same oracle",
        text="Exploration: >1e5 generated points per quick run, concentrated by construction on the thin regions where a violation could hide (maximisers, Garland's cusps k*pi/60, DoubleSine's tmax+-2^-j, DifficultFunc's 0.5+-e^-m, log-scale neighbourhoods of the origin, +-8 ulp neighbours, box end points), f(x) <= fmax with zero tolerance wherever IEEE rounding monotonicity makes the bound exact, attainment at the documented maximisers, purity, history independence (a second instance that evaluated other points, other dimensions and lattice neighbours first must agree), ValueError on wrong-length points. A supremum over a continuum is attacked, not enclosed.",
        note="Ackley's bound uses a tolerance of 8 ulp(22.7); DoubleSine parameters restricted to the property's quantifier; perturbed variants are seeded through np.random.seed before construction. Points are passed as lists of float / int / np.float64 and as 1-D float NumPy arrays (an exception on an array is inconclusive, a wrong, impure or argument-mutating evaluation is a violation). The atheris campaign is an extra of the thorough tier: if it cannot run it is recorded as skipped.",
        ref="4/C17"),
    "C04": dict(
        technique="property-based testing (Hypothesis) with a harness-kept ledger: per-round before/after snapshots of the evidence of every cell, arm and score; expected credit set per algorithm; whole-tree agreement with the history after every round",
        text="Exploration: the evidence (count, reward list, mean, variance) of every cell ever created in every partition of a run is snapshotted around pull and receive_reward of every round; the set that changed must equal the credit set the property prescribes, each by one appended reward, and the tree reachable from each root must agree with the ledger (counts, lists, fsum means, floored VHCT variance, count sums). Recording subclasses of the base learners identify which learner served a POO/GPO round.",
        note="Means compared to rel. 1e-9 (variance 1e-7). StroquOOL's documented candidate reset is allowed once per candidate; its rounds after it finished are skipped. VROOM's drawn cell is read from curr_node.",
        ref="4/C04"),
    "C05": dict(
        technique="property-based testing (Hypothesis) against an independent reference model of the published U/B/tau rules, evaluated as predicates over the observed step after every round (ledger-derived, ties left free)",
        text="Exploration: after every round of every generated history the U-value of every reachable cell is recomputed from the raw reward ledger with reference formulas written from the published pseudo-code (admissible t+ set for the lazy HCT/VHCT schedule), the B recursion is checked exactly on every non-root cell, and every pull's root-to-cell path is checked step by step (maximal sibling B, stop rule with reference thresholds).",
        note="rounds in which one of the code's two delta~ caps can still be active (t+ < 2 c1 delta: at most the first few) are not judged; values to rel. 1e-9, ceil arguments within 1e-9 of an integer accept both sides; the root's B-value is exempt.",
        ref="4/C05"),
    "C06": dict(
        technique="property-based testing (Hypothesis): make_children calls observed per partition instance and judged per round against the reference expansion rule (T-HOO depth bound, HCT/VHCT thresholds)",
        text="Exploration: every expansion of every generated run is attributed to its round; at most one per round, under the pulled cell, only if it was a leaf, new cells pristine; expansion happens if and only if the reference rule says so (either reading accepted where the published text is ambiguous).",
        note="rounds with t+ < 2 c1 delta (a delta~ cap may be active) are not judged; t+(t) vs t+(t+1) and VHCT variance before/after the reward are both accepted; ceil arguments within 1e-9 accept both sides.",
        ref="4/C06"),
    "C07": dict(
        technique="property-based testing (Hypothesis) with a harness-kept ledger of (cell, point, reward) and per-learner / per-phase scores; the recommendation is judged against the ledger, with reward laws weighted towards negative, tied and constant values",
        text="Exploration: for every generated run the harness records which cell produced every evaluated point and with what reward (and which learner / validation phase each reward belongs to, through recording learner subclasses); get_last_point() must return an evaluated candidate whose ledger value is maximal for the algorithm's documented criterion - at the end of the run and, in a third of the cases, at generated rounds in between (every prefix of a run is a run). Reward laws include exact ties and near-ties (distinct values within 1e-9).",
        note="Queries that hit the open findings D11a/D11b (no candidate exists yet) are counted as aborted, not judged. GPO validation rounds are located with the reference schedule. Means to rel. 1e-9.",
        ref="4/C07"),
    "C08": dict(
        technique="property-based testing (Hypothesis): the expansions recorded inside every pull and the harness ledger are judged against reference predicates of the SOO / StoSOO / DOO selection rules (tree state reconstructed at the moment of each expansion)",
        text="Exploration: per pull of every generated history the set of leaves at the start of the call is rebuilt, each recorded expansion is replayed on it and checked (leaf, evaluated, no unevaluated leaf above, best of its depth / best overall with the reference b or reward+delta, sweep monotonicity), and the cell handed out is checked (evaluation caps, depth cap, first-unevaluated-in-top-down-order or max-b).",
        note="Depth caps hold the budget and T <= n (so the depth-cap clause cannot bind: SOO/StoSOO are breadth-first in practice, DESIGN 2.3); DOO's default delta re-derived from the cells of each depth on the tree the decision was taken on; tolerance 1e-12 relative.",
        ref="4/C08"),
    "C09": dict(
        technique="exhaustive enumeration of the reward-independent schedule with stub learners over ranges of n x rho_max, plus property-based testing (Hypothesis) of GPO/PCT/VPCT over recording subclasses of the real base learners; reference schedule N, L as oracle",
        text="Exploration, with one finite sub-space enumerated completely: for every n in 100..2000 (thorough ..5000) and every rho_max of a grid the whole run is driven with an O(1) stub learner and compared with the reference schedule (learner count/order/parameters, exactly L alternating pull/receive pairs each, L validation rounds on the last proposal, score == mean of exactly those rewards, final point == best validated point). Generated runs with real learners, partitions and reward laws check the same on the actual classes.",
        note="floor(n/(2N)) >= 1 (else: open finding D8). Cases with a ceil/floor argument within 1e-9 of an integer are skipped and counted. exhaustive refers to the stub sub-check only.",
        ref="4/C09"),
    "C10": dict(
        technique="property-based testing (Hypothesis) with recording learner subclasses and a per-learner reward ledger, per-round routing/score oracle; enumerated stub-learner schedule over a rho_max grid",
        text="Exploration: every round of every generated POO run is attributed to the learner whose pull ran; routing (exactly one learner, reward to the same learner once), learner list monotonicity, construction parameters on the published rho grid, and the score/count invariants V_reward == mean(ledger), Times == len(ledger) are checked after every round; get_last_point must ask one best-scored learner (also when queried between rounds, after which the following rounds are judged as before). A grid of rho_max values is enumerated with stub learners for thousands of rounds to reach the later doubling phases.",
        note="rho_max >= 0.84 (POO starts); tolerance 1e-9 relative to the largest |reward|.",
        ref="4/C10"),
    "C11": dict(
        technique="property-based testing (Hypothesis): per-round structural invariant over the arm->cell map vs. the leaf tiling, reference index/phase/refinement rule evaluated from a harness-kept per-arm ledger",
        text="Exploration: after every round of every generated run the arm-to-cell map is compared with the leaves of the partition (containment and coverage), the arm returned by pull must maximise the published index computed from the ledger and the reference phase schedule, the refinement must happen iff the confidence radius has dropped to nu*rho^depth, and each refinement must leave exactly one child with the old arm and a fresh zero-pull arm at the centre of every other child. Generators are weighted towards midpoint splits, where the arm lies on a shared face.",
        note="active_points / pulled_times / average_rewards are read directly (named by the property); either phase is accepted at a phase boundary; tolerance 1e-12.",
        ref="4/C11"),
    "C12": dict(
        technique="property-based testing (Hypothesis) plus enumeration of every n in a range: the openings (make_children calls) recorded inside each pull are judged by a reference model of the harmonic schedule with exact Fraction arithmetic",
        text="Exploration, with the full-budget runs for every n in 10..1000 (thorough ..3000) on two partitions enumerated: each pull is classified (opening / pending child / post-schedule) and checked against the reference schedule: root first, depth order, per-depth budgets floor(h_max/h) with h_max = floor(n/H_n) computed exactly, depth advance only on exhausted budget or no unopened cell, opened cell is the best unopened evaluated cell of its depth, children returned in order exactly once, no cell evaluated twice, domain centre only after exhaustion and a stable recommendation afterwards.",
        note="n >= 10; openings are observed through the recording partition subclass.",
        ref="4/C12"),
    "C13": dict(
        technique="property-based testing (Hypothesis) with np.random.choice wrapped in-process: the probability vector actually used and the index actually drawn are compared with the reference rank/weight rule recomputed from a harness-kept ledger",
        text="Exploration: per pull of every generated run the ranks of every ranking depth must be a permutation ordered by the reference lower confidence value (from the ledger), the vector handed to np.random.choice must equal 1/(h r C) entry by entry and sum to one, the returned point must have been sampled from the drawn cell's descendant at the depth cap and lie in the drawn cell, and the reward must be credited exactly to that chain. The sampling law is thus decided through the weights used, not statistically.",
        note="Binary-child partitions only (others: open finding D10). Ties in LCB to 1e-12.",
        ref="4/C13"),
    "C14": dict(
        technique="differential property-based testing (Hypothesis): same case twice in one process; a RuleBasedStateMachine interleaving two instances vs. each alone; fresh-subprocess differential under different PYTHONHASHSEED / heap layouts and against the long-lived worker after a polluter instance; deep comparison of the user's domain object",
        text="Exploration: identical seed + constructor arguments + reward law must give bit-identical point sequences and recommendation (in-process repeat, and across fresh processes with different hash seeds and shifted object ids); a Hypothesis state machine chooses interleavings of two independently constructed instances - whole rounds and split rounds (pull_A ... calls on B ... receive_A), 60 % of the pairs being two instances of the same class - and each must behave as it does alone; the same case run inside a worker that has executed hundreds of other instances (and a polluter of the same class just before) must equal the fresh-process run, which exposes class-level / module-level state; the domain argument is compared with a deep copy taken before construction (values, element types, inner-list identity).",
        note="Interleavings use RNG-free partitions (the property's quantifier); every instance gets its own NumPy generator state, swapped in around each of its calls, so that VROOM - which draws from the global generator - can take part and still sees the stream it sees alone. One repeat case in twelve hands the box over as a 2-D float NumPy array and judges only that the array is not written to. A crash common to both runs is aborted. Subprocess differential: 96 cases per quick run (process start-up bound).",
        ref="4/C14"),
    "C15": dict(
        technique="differential property-based testing (Hypothesis): relabelled time arguments vs. 1..T, and a RuleBasedStateMachine inserting get_last_point() queries vs. the query-free run",
        text="Exploration: every generated run is executed with labels 1..T and again with labels t0+i (t0 in {0,17,-3,1e6,2}) or arbitrary strictly increasing labels; point sequences and recommendation must coincide. A state machine inserts 1-5 consecutive recommendation queries at Hypothesis-chosen rounds for T-HOO, HCT, VHCT, Zooming and POO and compares with the query-free run; a further sub-check queries before (almost) every round, which reaches side effects that need a rare coincidence of counts. Point-dependent rewards propagate any drift.",
        note="StoSOO and StroquOOL read time by design and are excluded (the property's own list).",
        ref="4/C15"),
    "C16": dict(
        technique="metamorphic property-based testing (Hypothesis): base run vs. run on the affine image of the box fed with the same rewards and RNG outcomes; bit-exact comparison for power-of-two scalings and dyadic translations, 1e-9 tolerance class for arbitrary maps on coordinate-free algorithms",
        text="Exploration: for every generated configuration and map x -> a x + t the image run must produce exactly the mapped points and recommendation. In the exact class (a = 2^k for k in -60..60; dyadic translations of dyadic boxes on midpoint partitions while every cell boundary stays representable) the comparison is bit for bit after verifying that the map is exactly invertible at each produced point; arbitrary maps are compared to 1e-9 of the box scale for the algorithms that never compare coordinates. DOO's default diameter function is checked under translations only (documented exception).",
        note="The image run receives the base run's rewards by index. Zooming and DOO-default are only checked in the exact class.",
        ref="4/C16"),
}

NOT_YET = "check not built yet in this round (planned in DESIGN.md section 4); property-based testing applies"


def main():
    props = [json.loads(l) for l in open(os.path.join(HERE, "properties.jsonl"))]
    checks = []
    na = []
    for p in props:
        pid = p["id"]
        if pid in CLAIMED:
            c = CLAIMED[pid]
            checks.append({
                "property_id": pid,
                "quick_cmd": "./check %s --tier quick" % pid,
                "thorough_cmd": "./check %s --tier thorough" % pid,
                "evidence_file": "evidence/%s.json" % pid,
                "replay_cmd_template": "./check %s --replay {path}" % pid,
                "engine": "pbt",
                "level_claimed": {"category": "exploration", "text": c["text"], "design_ref": "DESIGN.md section " + c["ref"]},
                "level_note": c["note"],
                "technique": c["technique"],
            })
        else:
            na.append({"property_id": pid, "reason": NOT_YET})
    m = {
        "version": 1,
        "setup_cmd": "./setup.sh",
        "hooks": {
            "guard": "PYXAB_VERIF",
            "enable": "no source hooks exist: observation is done from outside through recording subclasses (DESIGN 3.3); the variable is declared but nothing in /repo reads it",
            "baseline_off_cmd": BASELINE_OFF,
            "source_commits": [],
            "add_only": True,
        },
        "engines": [{
            "name": "pbt",
            "path": "pbt/",
            "serves_properties": sorted(CLAIMED),
            "kind_free_text": "Hypothesis 6.168 property-based / stateful testing over JSON cases, 16 sharded worker processes, explicit oracles (reference models, ledgers, differentials), deterministic JSON reducer, replay files; thorough tier of C02 and C17 additionally runs atheris/libFuzzer campaigns over the same generators and oracles (pbt/fuzz.py)",
        }],
        "checks": checks,
        "notes": "All checks import PyXAB from /repo's working tree (override: VERIF_REPO). VERIF_SEED selects the Hypothesis seed of every shard. Exit 0 = held, 1 = VIOLATION line, 2 = harness error. Genuine defects repaired in /repo as 'fix:' commits and open findings are listed in known_findings.json.",
        "not_applicable": na,
    }
    with open(os.path.join(HERE, "MANIFEST.json"), "w") as f:
        json.dump(m, f, indent=1)
    print("claimed:", sorted(CLAIMED), "not claimed:", [x["property_id"] for x in na])


if __name__ == "__main__":
    main()
