#!/usr/bin/env python3
"""Rewrites the table between the SEEDED-TABLE markers in DESIGN.md from seeded/RESULTS.txt and the meta.json files."""
import json, os, re
HERE = os.path.dirname(os.path.dirname(os.path.abspath(__file__)))
rows, cur = [], None
for l in open(os.path.join(HERE, "seeded", "RESULTS.txt")):
    m = re.match(r"^(\S+)\s+tests:(\w+).*demo-with-change:exit (\d+) demo-clean:exit (\d+)", l)
    if m:
        cur = {"name": m.group(1), "tests": m.group(2), "d1": m.group(3), "d0": m.group(4), "checks": []}
        rows.append(cur)
        continue
    m = re.match(r"^\s+(C\d+)\s+(\w+)\s+([\d.]+)s\s+(?:clause=(\S+))?", l)
    if m and cur is not None:
        cur["checks"].append((m.group(1), m.group(2), m.group(4) or ""))
t = "| seeded change | needs, in order to manifest | tests / demo | quick checks run against it |\n|---|---|---|---|\n"
for r in rows:
    meta = json.load(open(os.path.join(HERE, "seeded", r["name"], "meta.json")))
    res = ", ".join("%s %s%s" % (c, v.lower(), " [%s]" % cl if cl else "") for c, v, cl in r["checks"]) or "none claimed - see below"
    t += "| `%s` | %s | %s / exit %s with, %s without | %s |\n" % (r["name"], meta["needs_to_manifest"], r["tests"], r["d1"], r["d0"], res)
p = os.path.join(HERE, "DESIGN.md")
s = open(p).read()
a, b = s.index("<!-- SEEDED-TABLE-BEGIN -->"), s.index("<!-- SEEDED-TABLE-END -->")
s = s[:a] + "<!-- SEEDED-TABLE-BEGIN -->\n" + t + s[b:]
open(p, "w").write(s)
print(len(rows), "rows")
