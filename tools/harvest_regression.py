#!/usr/bin/env python3
"""Run one check against one hand-written mutant and keep the reduced replay as a committed
regression: tools/harvest_regression.py <mutant-id> <PROP> <name>"""
import json, os, re, shutil, subprocess, sys, tempfile
HERE = os.path.dirname(os.path.dirname(os.path.abspath(__file__)))
sys.path.insert(0, HERE)
from tools.mutants import MUTANTS
mid, prop, name = sys.argv[1:4]
m = [x for x in MUTANTS if x["id"] == mid][0]
tmp = tempfile.mkdtemp(prefix="pyxab_mut_")
try:
    shutil.copytree("/repo/PyXAB", os.path.join(tmp, "PyXAB"), ignore=shutil.ignore_patterns("__pycache__", "tests"))
    path = os.path.join(tmp, m["file"])
    src = open(path).read().replace(m["old"], m["new"], 1)
    for o, n in m.get("more", []):
        src = src.replace(o, n, 1)
    open(path, "w").write(src)
    env = dict(os.environ, VERIF_REPO=tmp, VERIF_EVIDENCE_DIR=os.path.join(tmp, "ev"))
    r = subprocess.run([os.path.join(HERE, "check"), prop], env=env, capture_output=True, text=True)
    paths = re.findall(r"VIOLATION property=\S+ replay=(\S+)", r.stdout)
    if not paths:
        print("no violation found"); sys.exit(1)
    # smallest case
    best = min(paths, key=lambda p: len(open(os.path.join(HERE, p)).read()))
    body = json.load(open(os.path.join(HERE, best)))
    body["regression_of"] = name
    body["found_with_mutant"] = mid
    os.makedirs(os.path.join(HERE, "regressions", prop), exist_ok=True)
    out = os.path.join(HERE, "regressions", prop, name + ".json")
    json.dump(body, open(out, "w"), indent=1, sort_keys=True)
    print("wrote", out, body["violation"]["clause"], "size", len(json.dumps(body["case"])))
finally:
    shutil.rmtree(tmp, ignore_errors=True)
