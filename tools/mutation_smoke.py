#!/usr/bin/env python3
"""Sensitivity of the checks (DESIGN 8): apply one mutant to a scratch copy of /repo's
PyXAB package (outside /repo and /verif), run the quick check of each targeted property
with VERIF_REPO pointing at the copy, expect exit 1, remove the copy.

usage: tools/mutation_smoke.py [--only ID[,ID]] [--props C05,C06] [--list] [--jobs N]
Mutants are (id, file, old, new, properties expected to catch it)."""
import argparse
import json
import os
import shutil
import subprocess
import sys
import tempfile
import time

HERE = os.path.dirname(os.path.dirname(os.path.abspath(__file__)))
sys.path.insert(0, HERE)
from tools.mutants import MUTANTS  # noqa: E402


def run_one(m, props, scale):
    tmp = tempfile.mkdtemp(prefix="pyxab_mut_")
    res = {}
    try:
        shutil.copytree("/repo/PyXAB", os.path.join(tmp, "PyXAB"),
                        ignore=shutil.ignore_patterns("__pycache__", "tests"))
        path = os.path.join(tmp, m["file"])
        src = open(path).read()
        if src.count(m["old"]) < 1:
            return {"error": "pattern not found"}
        src = src.replace(m["old"], m["new"]) if m.get("all") else src.replace(m["old"], m["new"], 1)
        for o, n in m.get("more", []):
            if src.count(o) < 1:
                return {"error": "pattern (more) not found"}
            src = src.replace(o, n, 1)
        open(path, "w").write(src)
        for p in props:
            env = dict(os.environ, VERIF_REPO=tmp, VERIF_BUDGET_SCALE=str(scale), VERIF_EVIDENCE_DIR=os.path.join(tmp, "ev"))
            t0 = time.time()
            r = subprocess.run([os.path.join(HERE, "check"), p], env=env, capture_output=True, text=True)
            line = [l for l in r.stdout.splitlines() if l.startswith("  clause=")]
            res[p] = {"exit": r.returncode, "s": round(time.time() - t0, 1), "clause": line[0][:160] if line else ""}
            if r.returncode == 2:
                res[p]["err"] = r.stderr[-400:]
    finally:
        shutil.rmtree(tmp, ignore_errors=True)
    return res


def main():
    ap = argparse.ArgumentParser()
    ap.add_argument("--only")
    ap.add_argument("--props")
    ap.add_argument("--list", action="store_true")
    ap.add_argument("--scale", type=float, default=1.0)
    ap.add_argument("--out", default=None)
    a = ap.parse_args()
    sel = MUTANTS
    if a.only:
        ids = set(a.only.split(","))
        sel = [m for m in MUTANTS if m["id"] in ids]
    if a.list:
        for m in sel:
            print(m["id"], m["file"], m["props"])
        return 0
    missed = 0
    results = {}
    for m in sel:
        props = a.props.split(",") if a.props else m["props"]
        if a.props:
            props = [p for p in props if p in m["props"]] or props
        res = run_one(m, props, a.scale)
        results[m["id"]] = res
        if "error" in res:
            print("%-28s ERROR %s" % (m["id"], res["error"]))
            missed += 1
            continue
        for p, r in res.items():
            ok = r["exit"] == 1
            if not ok and p in m["props"]:
                missed += 1
            print("%-28s %s %-6s %5.1fs %s" % (m["id"], p, "CAUGHT" if ok else ("MISSED" if r["exit"] == 0 else "ERR2"), r["s"], r.get("clause", "") or r.get("err", "")))
            sys.stdout.flush()
    if a.out:
        json.dump(results, open(a.out, "w"), indent=1)
    print("missed:", missed)
    return 1 if missed else 0


if __name__ == "__main__":
    sys.exit(main())
