#!/usr/bin/env python3
"""Property-preserving changes ('benign mutants'): the checks must stay quiet on them (exit 0).
usage: tools/benign.py [--only ID] [--props C04,C05]"""
import argparse, os, shutil, subprocess, sys, tempfile, time
HERE = os.path.dirname(os.path.dirname(os.path.abspath(__file__)))
ALL = ["C%02d" % i for i in range(1, 18)]
BENIGN = [
    # (id, file, old, new, checks to run)
    ("cpoint-returns-copy", "PyXAB/partition/Node.py", "        return self.c_point", "        return list(self.c_point)",
     ["C01", "C03", "C04", "C05", "C06", "C07", "C08", "C11", "C12", "C14", "C15", "C16"]),
    ("hoo-running-mean", "PyXAB/algos/HOO.py", "        self.mean_reward = np.sum(np.array(self.rewards)) / self.visited_times\n\n    def compute_u_value",
     "        self.mean_reward = self.mean_reward + (reward - self.mean_reward) / self.visited_times if self.visited_times > 1 else reward\n\n    def compute_u_value", ["C04", "C05", "C06"]),
    ("soo-tie-break-first", "PyXAB/algos/SOO.py", "                            node.get_reward() >= max_value\n", "                            node.get_reward() > max_value\n", ["C07", "C08", "C04"]),
    ("hoo-tie-break-first", "PyXAB/algos/HOO.py", "                if child.get_b_value() >= maxchild.get_b_value():", "                if child.get_b_value() > maxchild.get_b_value():", ["C05", "C06", "C04", "C01"]),
    ("zooming-tie-break-first", "PyXAB/algos/Zooming.py", "            if arm_r_t >= maximum_r_t:", "            if arm_r_t > maximum_r_t:", ["C11", "C04"]),
    ("doo-recommend-first-best", "PyXAB/algos/DOO.py", "                if reward >= max_value:", "                if reward > max_value:", ["C07"]),
    ("sequool-tie-break-first", "PyXAB/algos/SequOOL.py", "                        if node.get_reward() >= max_value:", "                        if node.get_reward() > max_value:", ["C12", "C07"]),
    ("poo-recommend-last-best", "PyXAB/algos/POO.py", "        max_param = np.argmax(V_reward)", "        max_param = len(V_reward) - 1 - np.argmax(V_reward[::-1])", ["C07", "C10", "C15"]),
    # round 10: the container of the box - a private list-of-lists copy, or a refusal of anything but a list
    ("partition-copies-box", "PyXAB/partition/Partition.py", "        self.domain = domain\n        self.root = node(0, 1, None, domain)",
     "        domain = [list(ax) for ax in domain]\n        self.domain = domain\n        self.root = node(0, 1, None, domain)", ["C02", "C03", "C14", "C01"]),
    ("partition-rejects-non-list", "PyXAB/partition/Partition.py", "        self.domain = domain\n        self.root = node(0, 1, None, domain)",
     "        if not isinstance(domain, list) or not all(isinstance(ax, list) for ax in domain):\n            raise TypeError('domain must be a list of lists')\n        self.domain = domain\n        self.root = node(0, 1, None, domain)", ["C02", "C14"]),
    ("kary-python-float-bounds", "PyXAB/partition/KaryPartition.py", "            domain[dim] = [boundary_points[i], boundary_points[i + 1]]",
     "            domain[dim] = [float(boundary_points[i]) if i else selected_dim[0], float(boundary_points[i + 1]) if i < self.K - 1 else selected_dim[1]]", ["C02", "C03", "C16", "C01"]),
]
def main():
    ap = argparse.ArgumentParser(); ap.add_argument("--only"); ap.add_argument("--props"); a = ap.parse_args()
    bad = 0
    for bid, f, old, new, props in BENIGN:
        if a.only and bid not in a.only.split(","): continue
        if a.props: props = [p for p in props if p in a.props.split(",")]
        tmp = tempfile.mkdtemp(prefix="pyxab_benign_")
        try:
            shutil.copytree("/repo/PyXAB", os.path.join(tmp, "PyXAB"), ignore=shutil.ignore_patterns("__pycache__"))
            p = os.path.join(tmp, f); s = open(p).read()
            if old not in s:
                print("%-28s PATTERN NOT FOUND" % bid); bad += 1; continue
            open(p, "w").write(s.replace(old, new, 1))
            r = subprocess.run(["/venv/bin/python", "-m", "pytest", "-q", "-p", "no:cacheprovider", "PyXAB/tests"], cwd=tmp,
                               env=dict(os.environ, PYTHONPATH=tmp, PYTHONDONTWRITEBYTECODE="1"), capture_output=True, text=True)
            print("%-28s tests: %s" % (bid, r.stdout.strip().splitlines()[-1] if r.stdout.strip() else r.stderr[-80:]))
            for c in props:
                t0 = time.time()
                r = subprocess.run([os.path.join(HERE, "check"), c], env=dict(os.environ, VERIF_REPO=tmp, VERIF_EVIDENCE_DIR=os.path.join(tmp, "ev")),
                                   capture_output=True, text=True)
                line = [l for l in r.stdout.splitlines() if l.startswith("  clause=")]
                tail = [l for l in r.stdout.splitlines() if " quick seed=" in l]
                print("    %s %-7s %5.1fs %s" % (c, {0: "quiet", 1: "ALARM", 2: "ERR2"}.get(r.returncode, r.returncode), time.time() - t0,
                                                  (line[0][:150] if line else (r.stderr[-200:] if r.returncode == 2 else (tail[0].split(":")[1][:60] if tail else "")))))
                if r.returncode != 0: bad += 1
                sys.stdout.flush()
        finally:
            shutil.rmtree(tmp, ignore_errors=True)
    print("alarms or errors:", bad)
    return 1 if bad else 0
if __name__ == "__main__":
    sys.exit(main())
