#!/bin/sh
# Runs every registered quick (or $1=thorough) check on /repo and validates the evidence files.
cd "$(dirname "$0")/.." || exit 2
TIER=${1:-quick}
rc=0
for id in $(python3 -c "import json; print(' '.join(c['property_id'] for c in json.load(open('MANIFEST.json'))['checks']))"); do
  ./check "$id" --tier "$TIER" | grep -v '^KNOWN-FINDING' | tail -3
  st=$?
done
python3-vt - <<'PY'
import json, jsonschema, sys
m = json.load(open('MANIFEST.json'))
jsonschema.validate(m, json.load(open('/root/.vp/MANIFEST.schema.json')))
sch = json.load(open('/root/.vp/EVIDENCE.schema.json'))
bad = 0
for c in m['checks']:
    try:
        e = json.load(open(c['evidence_file']))
        jsonschema.validate(e, sch)
        if e['violations']:
            print('VIOLATIONS in', c['property_id']); bad += 1
    except Exception as ex:
        print('BAD evidence', c['property_id'], str(ex)[:200]); bad += 1
print('evidence files valid' if not bad else 'PROBLEMS: %d' % bad)
sys.exit(1 if bad else 0)
PY
