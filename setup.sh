#!/bin/sh
# MANIFEST.setup_cmd: make sure hypothesis is importable by /venv/bin/python, offline.
cd "$(dirname "$0")" || exit 2
PY=/venv/bin/python
if ! $PY -c "import hypothesis" 2>/dev/null; then
  $PY -m pip install --no-index --find-links /opt/veriftools/wheels --target ./.deps hypothesis || exit 1
fi
$PY -c "import sys; sys.path.insert(0, '.deps'); import hypothesis, numpy; print('hypothesis', hypothesis.__version__, 'numpy', numpy.__version__)"
# atheris (coverage-guided sub-checks of the thorough tier); optional: a campaign that cannot run is recorded as skipped
if ! $PY -c "import sys; sys.path.append('.deps'); import atheris" 2>/dev/null; then
  $PY -m pip install -q --no-index --find-links /opt/veriftools/wheels --target ./.deps atheris 2>/dev/null || echo "atheris not installed (fuzz sub-checks will be skipped)"
fi
exit 0
