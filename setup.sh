#!/bin/sh
# MANIFEST.setup_cmd: make sure hypothesis is importable by /venv/bin/python, offline.
cd "$(dirname "$0")" || exit 2
PY=/venv/bin/python
if ! $PY -c "import hypothesis" 2>/dev/null; then
  $PY -m pip install --no-index --find-links /opt/veriftools/wheels --target ./.deps hypothesis || exit 1
fi
$PY -c "import sys; sys.path.insert(0, '.deps'); import hypothesis, numpy; print('hypothesis', hypothesis.__version__, 'numpy', numpy.__version__)"
