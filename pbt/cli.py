"""Command line: ./check <ID> [--tier quick|thorough] [--replay path] [--seed N]"""
import argparse
import os
import sys
import traceback


def main(argv=None):
    ap = argparse.ArgumentParser(prog="check")
    ap.add_argument("prop")
    ap.add_argument("--tier", default=os.environ.get("VERIF_TIER", "quick"), choices=["quick", "thorough"])
    ap.add_argument("--seed", type=int, default=None)
    ap.add_argument("--replay", default=None)
    a = ap.parse_args(argv)
    seed = a.seed
    if seed is None:
        try:
            seed = int(os.environ.get("VERIF_SEED", "1"))
        except ValueError:
            seed = 1
    from pbt import engine

    try:
        if a.replay:
            return engine.replay(a.prop.upper(), a.replay)
        return engine.run_check(a.prop.upper(), a.tier, seed)
    except engine.HarnessError as e:
        sys.stderr.write("HARNESS ERROR: %s\n" % e)
        return 2
    except Exception:  # noqa: BLE001
        sys.stderr.write("HARNESS ERROR:\n%s\n" % traceback.format_exc())
        return 2


if __name__ == "__main__":
    sys.exit(main())
