"""'Never hangs' (C01): a wall-clock alarm only ever yields *inconclusive*; a suspected
hang is re-run under a deterministic line budget and only exceeding that budget is a
violation (DESIGN 3.6)."""
import signal
import sys


class HangSuspected(BaseException):
    pass


class StepBudgetExceeded(BaseException):
    pass


def _on_alarm(signum, frame):
    raise HangSuspected()


class wall_guard:
    """with wall_guard(seconds): ...   raises HangSuspected (main thread only)."""

    def __init__(self, seconds):
        self.seconds = seconds

    def __enter__(self):
        self.old = signal.signal(signal.SIGALRM, _on_alarm)
        signal.setitimer(signal.ITIMER_REAL, self.seconds, 2.0)  # re-fires if swallowed
        return self

    def __exit__(self, *exc):
        signal.setitimer(signal.ITIMER_REAL, 0)
        signal.signal(signal.SIGALRM, self.old)
        return False


class line_budget:
    """Deterministic step budget: counts 'line' trace events of frames under ``root``
    and raises StepBudgetExceeded when more than ``limit`` happen before reset()."""

    def __init__(self, limit, root):
        self.limit = limit
        self.root = root
        self.count = 0

    def reset(self):
        self.count = 0

    def _local(self, frame, event, arg):
        if event == "line":
            self.count += 1
            if self.count > self.limit:
                raise StepBudgetExceeded()
        return self._local

    def _global(self, frame, event, arg):
        if frame.f_code.co_filename.startswith(self.root):
            return self._local
        return None

    def __enter__(self):
        self.old = sys.gettrace()
        sys.settrace(self._global)
        return self

    def __exit__(self, *exc):
        sys.settrace(self.old)
        return False
