"""Known findings (DESIGN 3.8): a failure is suppressed only when *every* field of an
``open`` entry's signature matches and its named guard holds for the case/state."""
import math
import os
import traceback

from pbt import engine
from pbt.gen import gpo_N, poo_starts
from pbt.harness import arity


def innermost_frame(exc):
    """file:function of the innermost frame inside the PyXAB tree under test."""
    root = os.path.join(engine.REPO, "PyXAB") + os.sep
    best = None
    for fs in traceback.extract_tb(exc.__traceback__):
        fn = os.path.abspath(fs.filename)
        if fn.startswith(root):
            best = "%s:%s" % (fn[len(root):], fs.name)
    return best


def _g_gpo_zero_half(case, session):
    a = case["algo"]
    if a["name"] not in ("GPO", "PCT", "VPCT"):
        return False
    p = a["params"]
    return p["rounds"] // (2 * gpo_N(p["rounds"], p["rhomax"])) < 1


def _g_poo_cannot_start(case, session):
    a = case["algo"]
    return a["name"] == "POO" and not poo_starts(a["params"]["rhomax"])


def _g_vroom_nonbinary(case, session):
    return case["algo"]["name"] == "VROOM" and arity(case["partition"], len(case["domain"])) != 2


def _g_no_recommendation_yet(case, session):
    a = session.algo
    name = case["algo"]["name"]
    if name == "StroquOOL":
        return not a.candidate
    if name in ("PCT", "VPCT"):
        a = a.algorithm
    if name in ("GPO", "PCT", "VPCT"):
        return len(a.V_reward) == 0
    return False


GUARDS = {
    "gpo_zero_half": _g_gpo_zero_half,
    "poo_cannot_start": _g_poo_cannot_start,
    "vroom_nonbinary": _g_vroom_nonbinary,
    "no_recommendation_yet": _g_no_recommendation_yet,
}

_CACHE = {}


def open_findings(prop):
    if prop not in _CACHE:
        _CACHE[prop] = [f for f in engine.load_known() if f.get("status") == "open" and f["property"] == prop]
    return _CACHE[prop]


def match(prop, case, session, sig):
    """sig: dict(algo=, stage=, kind=, frame=).  Returns the finding id or None."""
    for f in open_findings(prop):
        s = f["signature"]
        if sig["algo"] not in s["algos"]:
            continue
        if s["stage"] != sig["stage"] or s["kind"] != sig["kind"]:
            continue
        if s.get("frame") is not None and s["frame"] != sig.get("frame"):
            continue
        if not GUARDS[s["guard"]](case, session):
            continue
        return f["id"]
    return None
