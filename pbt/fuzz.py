"""Coverage-guided campaign (atheris / libFuzzer) over a sub-check's own generator and oracle.

Subprocess entry:  python -m pbt.fuzz PROP SUB TIER RUNS SEED SHARD OUT

The bytes libFuzzer mutates are decoded by Hypothesis (``test.hypothesis.fuzz_one_input``) with the
*same* strategy the random sub-check uses, so every input is a well-formed case; the PyXAB modules
are imported under atheris' instrumentation, so libFuzzer's corpus keeps the byte strings that
reached new branches of the library; the oracle is the sub-check's ``check_case``.  The outcome is
written to OUT as a Collector dump (atexit handlers do not run under libFuzzer, so the dump is
written from inside the target when the run budget is reached or a violation is found).

Exit status: 0 budget reached, 3 violation recorded in OUT, anything else = campaign did not run
(the parent then records the sub-check as skipped; it is never turned into a violation).
"""
import importlib
import json
import os
import shutil
import sys
import tempfile


def main(argv):
    prop, sub, tier, runs, seed, shard, out = argv[1], argv[2], argv[3], int(argv[4]), int(argv[5]), int(argv[6]), argv[7]
    here = os.path.dirname(os.path.dirname(os.path.abspath(__file__)))
    deps = os.path.join(here, ".deps")
    if deps not in sys.path:
        sys.path.append(deps)
    try:
        import atheris
    except Exception as e:  # noqa: BLE001
        print("atheris not importable: %s" % e)
        return 4
    from pbt import engine

    with atheris.instrument_imports(include=["PyXAB"], enable_loader_override=False):
        engine.setup_paths()
        mod = importlib.import_module("pbt.props.%s" % prop.lower())
    from hypothesis import HealthCheck, given, settings

    make_strategy, check_case = mod.FUZZ[sub]
    col = engine.Collector()
    state = {"n": 0, "done": False}
    corpus = tempfile.mkdtemp(prefix="pyxab_fuzz_")
    # Hypothesis needs a few hundred bytes to build one case; libFuzzer starts from short inputs, so give it
    # pseudo-random seeds of useful length (a pure function of the seed) next to the empty corpus
    import random

    rnd = random.Random(engine.derive_seed(seed, prop, sub, shard, "corpus"))
    for i in range(24):
        with open(os.path.join(corpus, "seed%02d" % i), "wb") as f:
            f.write(rnd.randbytes(256 << (i % 5)))

    def finish(code):
        state["done"] = True
        d = col.dump()
        d["fuzz_executions"] = state["n"]
        with open(out + ".tmp", "w") as f:
            json.dump(d, f, default=engine._json_default)
        os.replace(out + ".tmp", out)
        shutil.rmtree(corpus, ignore_errors=True)
        sys.stdout.flush()
        os._exit(code)

    @settings(database=None, deadline=None, suppress_health_check=list(HealthCheck))
    @given(make_strategy(tier))
    def test(case):
        o = check_case(case)
        col.add(sub, case, o)
        if o.violation and not o.known:
            raise engine._Found()

    fuzz_one = test.hypothesis.fuzz_one_input

    def target(data):
        if state["done"]:
            return
        state["n"] += 1
        try:
            fuzz_one(data)
        except engine._Found:
            finish(3)
        if state["n"] >= runs:
            finish(0)

    args = [sys.argv[0], corpus, "-runs=%d" % (runs + 1000), "-seed=%d" % (engine.derive_seed(seed, prop, sub, shard) % (2 ** 31 - 1) + 1),
            "-max_len=8192", "-len_control=0", "-print_final_stats=0", "-verbosity=0", "-close_fd_mask=3"]
    atheris.Setup(args, target)
    atheris.Fuzz()
    finish(0)


if __name__ == "__main__":
    sys.exit(main(sys.argv))
