"""Instrumented execution of PyXAB from a JSON case (DESIGN 3.1, 3.3, 3.4).

Nothing in PyXAB is edited: observation happens through recording *subclasses* of the
partition classes (and of the base learners handed to POO/GPO) and, in script mode,
through in-process stubs for ``np.random.randint`` / ``np.random.uniform`` that replay
Hypothesis-drawn outcomes.
"""
import contextlib
import copy
import math
import random

import numpy as np

from PyXAB.partition.Node import P_node
from PyXAB.partition.BinaryPartition import BinaryPartition
from PyXAB.partition.RandomBinaryPartition import RandomBinaryPartition
from PyXAB.partition.DimensionBinaryPartition import DimensionBinaryPartition
from PyXAB.partition.KaryPartition import KaryPartition
from PyXAB.partition.RandomKaryPartition import RandomKaryPartition

PARTITIONS = {
    "BinaryPartition": BinaryPartition,
    "RandomBinaryPartition": RandomBinaryPartition,
    "DimensionBinaryPartition": DimensionBinaryPartition,
    "KaryPartition": KaryPartition,
    "RandomKaryPartition": RandomKaryPartition,
}
KARY = ("KaryPartition", "RandomKaryPartition")
RANDOM_SPLIT = ("RandomBinaryPartition", "RandomKaryPartition")


def arity(pspec, d):
    """Documented number of children of a split."""
    if pspec["cls"] in KARY:
        return pspec["K"]
    if pspec["cls"] == "DimensionBinaryPartition":
        return 2 ** d
    return 2


def partition_uses_rng(pspec, d):
    if pspec["cls"] in RANDOM_SPLIT:
        return True
    if pspec["cls"] == "DimensionBinaryPartition":
        return False
    return d > 1  # random split dimension (randint is still *called* for d == 1)


# --------------------------------------------------------------------------- RNG


class RngScript:
    """Outcomes injected into np.random.randint / np.random.uniform.

    ints  : consumed by randint(low, high) as low + k % (high - low)
    fracs : consumed by uniform(lo, hi) as lo + (hi - lo) * u with u in [0, 1) --
            exactly the formula NumPy documents, so only outcomes NumPy can produce
            (including ``hi`` through rounding) are ever injected.
    When a script runs out, a private RandomState(seed) continues."""

    def __init__(self, spec):
        self.ints = list(spec.get("ints", []))
        self.fracs = list(spec.get("fracs", []))
        self.i = 0
        self.f = 0
        self.rs = np.random.RandomState(spec.get("seed", 0) % (2 ** 32))
        self.used_endpoint = 0

    def randint(self, low, high=None, size=None, dtype=int):
        if size is not None:
            return self.rs.randint(low, high, size)
        if high is None:
            low, high = 0, low
        if self.i < len(self.ints):
            k = self.ints[self.i]
            self.i += 1
            return int(low + k % (high - low))
        return int(self.rs.randint(low, high))

    def uniform(self, low=0.0, high=1.0, size=None):
        if size is not None:
            return self.rs.uniform(low, high, size)
        if self.f < len(self.fracs):
            u = self.fracs[self.f]
            self.f += 1
        else:
            u = self.rs.random_sample()
        v = low + (high - low) * u
        if v == low or v == high:
            self.used_endpoint += 1
        return np.float64(v)


@contextlib.contextmanager
def rng_context(spec):
    """mode 'seed': np.random.seed(seed), nothing patched.
    mode 'script': randint/uniform replaced by an RngScript for the duration."""
    spec = spec or {"mode": "seed", "seed": 0}
    np.random.seed(spec.get("seed", 0) % (2 ** 32))
    if spec.get("mode", "seed") != "script":
        yield None
        return
    script = RngScript(spec)
    old = (np.random.randint, np.random.uniform)
    np.random.randint = script.randint
    np.random.uniform = script.uniform
    try:
        yield script
    finally:
        np.random.randint, np.random.uniform = old


# ----------------------------------------------------------------------- rewards


class RewardLaw:
    """Reward of round i (1-based) at point x: a pure function of the case."""

    POINT_DEPENDENT = ("peak", "peakpos", "bump", "twolevel")

    def __init__(self, spec, domain):
        self.spec = spec
        self.law = spec.get("law", "noise")
        self.params = spec.get("params", {})
        self.rng = random.Random(spec.get("seed", 0))
        self.noise = []
        self.overrides = {int(r): v for r, v in spec.get("overrides", [])}
        self.npfloat = bool(spec.get("npfloat", False))
        self.inttype = bool(spec.get("inttype", False))
        self.domain = [[float(a), float(b)] for a, b in domain]

    def _n(self, i):
        while len(self.noise) <= i:
            self.noise.append(self.rng.random())
        return self.noise[i]

    def unit(self, x):
        u = []
        for xi, (lo, hi) in zip(x, self.domain):
            w = hi - lo
            u.append((float(xi) - lo) / w if w > 0 else 0.0)
        return u

    def __call__(self, i, x):
        if i in self.overrides:
            v = self.overrides[i]
        else:
            v = self._value(i, x)
        v = float(v)
        if self.inttype and v == int(v) and abs(v) < 2.0 ** 53:
            return int(v)
        return np.float64(v) if self.npfloat else v

    def _value(self, i, x):
        law, p, z = self.law, self.params, self._n(i)
        if law == "explicit":
            vals = p["values"]
            return vals[i - 1] if i - 1 < len(vals) else 0.0
        if law == "const":
            return p.get("c", 0.5)
        if law == "noise":
            return z
        if law == "negative":
            return -(0.05 + z)
        if law == "nonpos_ties":
            return (-1.0, -0.5, 0.0)[int(z * 3) % 3]
        if law == "ties":
            return (0.0, 0.5, 1.0)[int(z * 3) % 3]
        if law == "large":
            return (2 * z - 1) * 1e6
        if law == "alternating":
            return p.get("a", 1.0) * (1 if i % 2 else -1)
        if law == "neg_then_zero":  # strictly negative up to round r0, exactly 0 afterwards
            return 0.0 if i >= p.get("r0", 10 ** 9) else -(0.05 + z)
        if law == "neartie":  # distinct values within a relative 1e-9 of each other (never exactly tied)
            k = int(z * 7)
            return p.get("c", 1.0) * (1.0 - k * 1.5e-10)
        if law == "ramp":  # strictly increasing, all distinct
            return i * p.get("s", 0.01) + 1e-3 * z
        if law == "twolevel":  # a smooth function of the point plus a two- or three-level noise of small amplitude
            u = self.unit(x)
            star = p.get("star", [0.3] * len(u))
            dist = sum(abs(a - star[k % len(star)]) for k, a in enumerate(u)) / max(1, len(u))
            amp = p.get("amp", 0.035)
            lev = p.get("levels", 2)
            step = (int(z * lev) % lev) - (lev - 1) / 2.0
            return 1.0 - dist + amp * step * (2.0 if lev == 2 else 1.0)
        if law in ("peak", "peakpos", "bump"):
            u = self.unit(x)
            star = p.get("star", [0.3] * len(u))
            dist = sum(abs(a - star[k % len(star)]) for k, a in enumerate(u)) / max(1, len(u))
            sigma = p.get("sigma", 0.0)
            if law == "peak":
                return -dist + sigma * (z - 0.5)
            if law == "peakpos":
                return 1.0 - dist + sigma * (z - 0.5)
            return math.exp(-8 * dist) + sigma * (z - 0.5)
        raise ValueError("unknown reward law %r" % law)


# --------------------------------------------------------------------- recording


class Unattributable(Exception):
    """The returned point is a copy whose coordinates match several cells (e.g. a parent and its middle
    child for odd K): the run cannot be judged by identity-free means - inconclusive, never a violation."""


class Clock:
    def __init__(self):
        self.round = 0
        self.stage = "ctor"


class Recorder:
    """Everything seen on one partition instance."""

    def __init__(self, session, part):
        self.session = session
        self.part = part
        self.splits = []
        self.nodes = []
        self.samples = []  # (round, node, point) from sample_uniform (VROOM)

    def register(self, node):
        self.nodes.append(node)
        self.session.by_id[id(node.get_cpoint())] = (node, self)


def make_rec_partition(pspec, session):
    base = PARTITIONS[pspec["cls"]]
    K = pspec.get("K") if pspec["cls"] in KARY else None

    class RecPartition(base):
        _verif_base = base

        def __init__(self, domain=None, node=P_node, **kw):
            rec = Recorder(session, self)
            self._rec = rec
            if hasattr(node, "sample_uniform"):
                node = _rec_sampling_node(node, rec, session)
            if K is not None:
                base.__init__(self, domain=domain, K=K, node=node)
            else:
                base.__init__(self, domain=domain, node=node)
            session.recs.append(rec)
            rec.register(self.root)

        def make_children(self, parent, newlayer=False):
            rec = self._rec
            ev = {
                "round": session.clock.round,
                "stage": session.clock.stage,
                "parent": parent,
                "prev_children": parent.get_children(),
                "newlayer": newlayer,
                "depth_before": self.depth,
                "nlayers_before": len(self.node_list),
                "rec": rec,
            }
            base.make_children(self, parent, newlayer)
            ev["children"] = list(parent.get_children())
            for c in ev["children"]:
                rec.register(c)
            rec.splits.append(ev)
            session.split_log.append(ev)

    RecPartition.__name__ = base.__name__
    RecPartition.__qualname__ = base.__qualname__
    return RecPartition


def _rec_sampling_node(node_cls, rec, session):
    class RecNode(node_cls):
        def sample_uniform(self):
            r = node_cls.sample_uniform(self)
            rec.samples.append((session.clock.round, self, r))
            session.by_id[id(r)] = (self, rec)
            session.sampled[id(r)] = self
            session.keep.append(r)
            return r

    RecNode.__name__ = node_cls.__name__
    return RecNode


class LearnerLog:
    def __init__(self, index, kwargs, obj):
        self.index = index
        self.kwargs = kwargs
        self.obj = obj
        self.pulls = []  # (round, stage, point)
        self.rewards = []  # (round, reward)


def make_rec_learner(base_cls, session):
    logs = session.learners

    class RecLearner(base_cls):
        def __init__(self, *a, **kw):
            self._vlog = LearnerLog(len(logs), dict(kw), self)
            self._vlog.ctor_round = session.clock.round
            self._vlog.args = a
            logs.append(self._vlog)
            base_cls.__init__(self, *a, **kw)

        def pull(self, time):
            p = base_cls.pull(self, time)
            self._vlog.pulls.append((session.clock.round, session.clock.stage, p))
            session.learner_calls.append(("pull", self._vlog.index, session.clock.round, session.clock.stage))
            return p

        def receive_reward(self, time, reward):
            self._vlog.rewards.append((session.clock.round, reward))
            session.learner_calls.append(("receive", self._vlog.index, session.clock.round, session.clock.stage))
            return base_cls.receive_reward(self, time, reward)

    RecLearner.__name__ = base_cls.__name__
    RecLearner.__qualname__ = base_cls.__qualname__
    return RecLearner


# --------------------------------------------------------------------- algorithms

WRAPPERS = ("POO", "GPO")
BASES = ("T_HOO", "HCT", "VHCT")
ALGOS = (
    "T_HOO", "HCT", "VHCT", "POO", "GPO", "PCT", "VPCT", "DOO", "SOO", "StoSOO",
    "SequOOL", "StroquOOL", "VROOM", "Zooming",
)


def algo_label(aspec):
    if aspec["name"] in WRAPPERS:
        return "%s[%s]" % (aspec["name"], aspec["base"])
    return aspec["name"]


def user_delta(dspec):
    """DOO's user-supplied delta(h), described by data so that the case stays JSON."""
    if dspec is None:
        return None
    kind = dspec["kind"]
    a, b = dspec.get("a", 1.0), dspec.get("b", 0.5)
    if kind == "geom":
        return lambda h: a * b ** h
    if kind == "const":
        return lambda h: a
    if kind == "inv":
        return lambda h: a / (1 + h)
    if kind == "grow":
        return lambda h: a * (1 + h)
    if kind == "table":  # arbitrary, possibly non-monotone values (any function of h is a legal delta)
        tab = dspec["values"]
        return lambda h: tab[h % len(tab)]
    raise ValueError(kind)


def _algo_classes():
    from PyXAB.algos.HOO import T_HOO
    from PyXAB.algos.HCT import HCT
    from PyXAB.algos.VHCT import VHCT
    from PyXAB.algos.POO import POO
    from PyXAB.algos.GPO import GPO
    from PyXAB.algos.PCT import PCT
    from PyXAB.algos.VPCT import VPCT
    from PyXAB.algos.DOO import DOO
    from PyXAB.algos.SOO import SOO
    from PyXAB.algos.StoSOO import StoSOO
    from PyXAB.algos.SequOOL import SequOOL
    from PyXAB.algos.StroquOOL import StroquOOL
    from PyXAB.algos.VROOM import VROOM
    from PyXAB.algos.Zooming import Zooming

    return locals()


class Session:
    """One instrumented run of one algorithm, driven step by step.

    Use as a context manager so that the RNG stubs are removed again."""

    def __init__(self, case, record_learners=False, record_partitions=True, domain_obj=None):
        self.case = case
        self.clock = Clock()
        self.recs = []
        self.by_id = {}
        self.sampled = {}
        self.keep = []
        self.split_log = []
        self.learners = []
        self.learner_calls = []
        self.record_learners = record_learners
        self.record_partitions = record_partitions
        # the object handed to PyXAB (optionally one that another session uses as well)
        from pbt.gen import materialise_domain

        self.domain = domain_obj if domain_obj is not None else materialise_domain(case)
        self.domain_snapshot = copy.deepcopy(case["domain"])
        self.domain_inner_ids = [id(x) for x in self.domain]
        self.d = len(self.domain)
        self.reward_law = RewardLaw(case.get("reward", {}), case["domain"])
        self.algo = None
        self.i = 0  # completed rounds
        self.points = []
        self.rewards = []
        self._stack = None
        self.script = None
        self._patched = []

    # -- life cycle
    def __enter__(self):
        self._stack = contextlib.ExitStack()
        self.script = self._stack.enter_context(rng_context(self.case.get("rng")))
        return self

    def __exit__(self, *exc):
        for mod, name, old in reversed(self._patched):
            setattr(mod, name, old)
        self._patched = []
        self._stack.close()
        return False

    def label(self, i):
        lab = self.case.get("labels")
        if not lab:
            return i
        v = lab["list"][i - 1] if "list" in lab else lab.get("t0", 1) + i - 1
        if lab.get("type") == "npint":
            return np.int64(v)
        if lab.get("type") == "float":
            return float(v)
        return v

    def partition_class(self):
        pspec = self.case["partition"]
        if self.record_partitions:
            return make_rec_partition(pspec, self)
        base = PARTITIONS[pspec["cls"]]
        if pspec["cls"] in KARY:
            K = pspec["K"]

            class Bound(base):
                def __init__(self, domain=None, node=P_node):
                    base.__init__(self, domain=domain, K=K, node=node)

            Bound.__name__ = base.__name__
            return Bound
        return base

    def construct(self):
        C = _algo_classes()
        a = self.case["algo"]
        name, p = a["name"], dict(a.get("params", {}))
        part = self.partition_class()
        self.clock.stage = "ctor"
        dom = self.domain
        if name in WRAPPERS:
            base = C[a["base"]]
            if self.record_learners:
                base = make_rec_learner(base, self)
            self.algo = C[name](domain=dom, partition=part, algo=base, **p)
        elif name in ("PCT", "VPCT"):
            if self.record_learners:
                import PyXAB.algos.PCT as mP
                import PyXAB.algos.VPCT as mV

                mod, attr = (mP, "HCT") if name == "PCT" else (mV, "VHCT")
                old = getattr(mod, attr)
                setattr(mod, attr, make_rec_learner(old, self))
                self._patched.append((mod, attr, old))
            self.algo = C[name](domain=dom, partition=part, **p)
        elif name == "DOO":
            dl = user_delta(p.pop("delta", None))
            self.algo = C[name](domain=dom, partition=part, delta=dl, **p)
        else:
            self.algo = C[name](domain=dom, partition=part, **p)
        return self.algo

    # -- the documented loop
    def pull(self):
        self.clock.round = self.i + 1
        self.clock.stage = "pull"
        pt = self.algo.pull(self.label(self.i + 1))
        self.cur_point = pt
        return pt

    def reward_for(self, pt):
        return self.reward_law(self.i + 1, pt)

    def receive(self, r):
        self.clock.stage = "receive"
        self.algo.receive_reward(self.label(self.i + 1), r)
        self.i += 1
        self.points.append(self.cur_point)
        self.rewards.append(r)

    def step(self):
        pt = self.pull()
        r = self.reward_for(pt)
        self.receive(r)
        return pt, r

    def last_point(self):
        self.clock.round = self.i + 1
        self.clock.stage = "last"
        return self.algo.get_last_point()

    # -- observation helpers
    def _lookup(self, pt):
        """(cell, recorder) of a returned point: by object identity (PyXAB hands out the cell's own list), else -
        should an implementation hand out a copy - by coordinates, if exactly one cell has them."""
        ent = self.by_id.get(id(pt))
        if ent is not None:
            node = ent[0]
            if node.get_cpoint() is pt or self.sampled.get(id(pt)) is node:
                return ent
        if not isinstance(pt, list):
            return None
        hits = []
        for rec in self.recs:
            for n in rec.nodes:
                c = n.get_cpoint()
                if len(c) == len(pt) and all(a == b for a, b in zip(c, pt)):
                    hits.append((n, rec))
        if not hits:
            return None
        if len(hits) > 1:
            raise Unattributable()
        return hits[0]

    def cell_of(self, pt):
        ent = self._lookup(pt)
        return ent[0] if ent else None

    def rec_of(self, pt):
        ent = self._lookup(pt)
        return ent[1] if ent else None

    def main_partition(self):
        a = self.algo
        if hasattr(a, "partition") and not isinstance(a.partition, type):
            return a.partition
        return None

    def domain_unchanged(self):
        """Values, element types and inner-list identities of the user's domain."""
        if len(self.domain) != len(self.domain_snapshot):
            return "length changed"
        for k, (now, was) in enumerate(zip(self.domain, self.domain_snapshot)):
            if id(now) != self.domain_inner_ids[k]:
                return "inner list %d replaced" % k
            if len(now) != len(was):
                return "inner list %d changed length" % k
            for a, b in zip(now, was):
                if type(a) is not type(b) or not (a == b):
                    return "entry changed: %r -> %r" % (b, a)
        return None


# ------------------------------------------------------------------ tree helpers


def iter_tree(root):
    stack = [root]
    while stack:
        n = stack.pop()
        yield n
        ch = n.get_children()
        if ch:
            stack.extend(reversed(ch))


def leaves(root):
    return [n for n in iter_tree(root) if n.get_children() is None]


def ancestors(node):
    out = []
    n = node.get_parent()
    while n is not None:
        out.append(n)
        n = n.get_parent()
    return out


def in_box(x, box):
    return all(lo <= xi <= hi for xi, (lo, hi) in zip(x, box))


def is_real(v):
    return isinstance(v, (int, float, np.floating, np.integer)) and not isinstance(v, bool)


def check_point(pt, domain):
    """C01's predicate: list of d finite reals inside the box.  Returns None or text."""
    if not isinstance(pt, list):
        return "not a list: %r" % (type(pt).__name__,)
    if len(pt) != len(domain):
        return "length %d != d=%d" % (len(pt), len(domain))
    for k, (v, (lo, hi)) in enumerate(zip(pt, domain)):
        if not is_real(v):
            return "coordinate %d is %r" % (k, type(v).__name__)
        if not math.isfinite(v):
            return "coordinate %d not finite: %r" % (k, v)
        if not (lo <= v <= hi):
            return "coordinate %d = %r outside [%r, %r]" % (k, v, lo, hi)
    return None
