"""C15 - anytime algorithms ignore the time argument and tolerate recommendation queries."""
import contextlib
import copy

from hypothesis import strategies as st
from hypothesis.stateful import RuleBasedStateMachine, initialize, precondition, rule

from pbt import gen
from pbt.engine import Outcome, _Found
from pbt.harness import Session, algo_label

PROP = "C15"
RULE = (
    "subcheck 'labels': {T_HOO, HCT, VHCT, Zooming, POO, GPO, PCT, VPCT, DOO, SOO, SequOOL, VROOM} x partition x box x seed x reward law; "
    "the run labelled 1..T is compared with the same run labelled t0+i for t0 in {0, 17, -3, 10^6} and with arbitrary strictly "
    "increasing labels (as Python ints, NumPy integers or floats): point sequences and recommendation must be identical. subcheck 'queries': a Hypothesis RuleBasedStateMachine "
    "over one instance of {T_HOO, HCT, VHCT, Zooming, POO} with rules step() and query() (= get_last_point(), 1-5 times in a row, at "
    "Hypothesis-chosen rounds), plus subcheck 'dense-queries' with a query before (almost) every round of a generated run; the point "
    "sequence must equal that of the run without queries. Rewards are point-dependent so that "
    "any drift propagates. non-trivial = >= 20 rounds, point-dependent rewards, labels differ from 1..T / >= 1 query after the first "
    "expansion; distinct = SHA-1 of the case / history."
)
ASSUMPTIONS = [
    "StoSOO and StroquOOL read the time argument by design and are outside the property",
    "a crash common to both runs is C01's business (aborted)",
]

LABEL_ALGOS = ["T_HOO", "HCT", "VHCT", "Zooming", "POO", "GPO", "PCT", "VPCT", "DOO", "SOO", "SequOOL", "VROOM"]
QUERY_ALGOS = ["T_HOO", "HCT", "VHCT", "Zooming", "POO"]


def trace(case, queries=None):
    out = {"points": [], "last": None, "error": None, "qcount": 0}
    queries = queries or {}
    with Session(case, record_partitions=False) as s:
        try:
            s.construct()
            for i in range(1, case["T"] + 1):
                for _ in range(queries.get(str(i), queries.get(i, 0))):
                    s.algo.get_last_point()
                    out["qcount"] += 1
                pt, r = s.step()
                out["points"].append([repr(x) for x in pt] if isinstance(pt, list) else repr(pt))
            try:
                lp = s.last_point()
                out["last"] = [repr(x) for x in lp] if isinstance(lp, list) else repr(lp)
            except Exception as e:  # noqa: BLE001 - e.g. open finding D11: compared as an outcome, not aborted
                out["last"] = "raises:" + type(e).__name__
        except Exception as e:  # noqa: BLE001
            out["error"] = "%s@%d" % (type(e).__name__, len(out["points"]) + 1)
    return out


def compare(ref, var, what, classes, T):
    for i, (x, y) in enumerate(zip(ref["points"], var["points"])):
        if x != y:
            return Outcome(violation={"clause": what, "msg": "round %d: reference run %r, variant %r" % (i + 1, x, y), "round": i + 1}, classes=classes)
    if len(ref["points"]) != len(var["points"]) or ref["error"] != var["error"]:
        return Outcome(violation={"clause": what, "msg": "runs end differently: %r after %d rounds vs %r after %d" % (
            ref["error"], len(ref["points"]), var["error"], len(var["points"])), "round": min(len(ref["points"]), len(var["points"])) + 1}, classes=classes)
    return None


def check_labels(case):
    classes = ["algo:" + algo_label(case["algo"]), "part:" + case["partition"]["cls"], "labels:" + ("list" if "list" in case["labels"] else "t0=%s" % case["labels"].get("t0"))]
    if case["labels"].get("type"):
        classes.append("label-type:" + case["labels"]["type"])
    refcase = dict(case)
    refcase.pop("labels")
    ref = trace(refcase)
    var = trace(case)
    out = compare(ref, var, "time-dependence", classes, case["T"])
    if out:
        return out
    if ref["last"] != var["last"]:
        return Outcome(violation={"clause": "time-dependence", "msg": "recommendation differs: %r vs %r" % (ref["last"], var["last"]), "round": case["T"]}, classes=classes)
    if ref["error"]:
        return Outcome(aborted="exception:" + ref["error"].split("@")[0], classes=classes)
    lab = case["labels"]
    differs = ("list" in lab and lab["list"] != list(range(1, case["T"] + 1))) or ("t0" in lab and lab["t0"] != 1)
    pd = case["reward"].get("law") in ("peak", "peakpos", "bump")
    return Outcome(nontrivial=case["T"] >= 20 and differs and pd, classes=classes, rounds=2 * case["T"])


def check_queries(case):
    classes = ["algo:" + algo_label(case["algo"]), "part:" + case["partition"]["cls"], "queries"]
    q = case["queries"]
    base = dict(case)
    base.pop("queries")
    ref = trace(base)
    var = trace(base, queries=q)
    out = compare(ref, var, "query-side-effect", classes, case["T"])
    if out:
        return out
    if ref["error"]:
        return Outcome(aborted="exception:" + ref["error"].split("@")[0], classes=classes)
    late = any(int(k) >= 3 and v > 0 for k, v in q.items())
    if len(q) > 20:
        classes.append("dense-queries")
    pd = case["reward"].get("law") in ("peak", "peakpos", "bump")
    if late:
        classes.append("query-after-first-expansion")
    return Outcome(nontrivial=case["T"] >= 20 and late and pd, classes=classes, rounds=2 * case["T"])


def check_case(case):
    return check_queries(case) if "queries" in case else check_labels(case)


@st.composite
def label_cases(draw, tier):
    quick = tier == "quick"
    c = draw(gen.run_case(names=LABEL_ALGOS, T_max=150 if quick else 500, n_range=(100, 300) if quick else (100, 800),
                          laws=["peak", "peakpos", "bump", "bump", "noise"], poo_ok_only=True, gpo_ok_only=True,
                          script_prob=0.2, T_min=5, binary_children_only=False))
    if draw(st.integers(0, 3)) == 0:
        steps = draw(st.lists(st.integers(1, 7), min_size=c["T"], max_size=c["T"]))
        start = draw(st.integers(-50, 50))
        lab = []
        v = start
        for k in steps:
            v += k
            lab.append(v)
        c["labels"] = {"list": lab}
    else:
        c["labels"] = {"t0": draw(st.sampled_from([0, 0, 17, -3, 10 ** 6, 2]))}
    # "any other increasing labels": time stamps also arrive as numpy integers or as floats
    kind = draw(st.sampled_from(["int", "int", "int", "npint", "float"]))
    if kind != "int":
        c["labels"]["type"] = kind
    return c


@st.composite
def dense_query_cases(draw, tier):
    """A query before (almost) every round: side effects that need a rare coincidence (a query issued
    exactly when a count sits on a threshold) are reached because every round is covered."""
    quick = tier == "quick"
    c = draw(gen.run_case(names=QUERY_ALGOS + ["VHCT", "HCT"], T_max=150 if quick else 500, n_range=(100, 300) if quick else (100, 800),
                          laws=["peak", "peakpos", "bump", "noise", "ties"], poo_ok_only=True, script_prob=0.2, T_min=30))
    skip = draw(st.integers(0, 3))
    c["queries"] = {str(i): draw(st.integers(1, 2)) if skip == 0 else 1 for i in range(2, c["T"] + 1) if skip == 0 or i % (skip + 1)}
    return c


def make_machine(col, sub, tier):
    quick = tier == "quick"

    class Queries(RuleBasedStateMachine):
        def __init__(self):
            super().__init__()
            self.case = None
            self.stack = contextlib.ExitStack()
            self.s = None
            self.q = {}
            self.pts = []
            self.dead = None

        @initialize(c=gen.run_case(names=QUERY_ALGOS, T_max=60, n_range=(100, 200), laws=["peak", "peakpos", "bump", "ties", "const", "peak"],
                                   poo_ok_only=True, script_prob=0.2, T_min=60, full_T_prob=1.0))
        def init(self, c):
            self.case = c
            try:
                self.s = self.stack.enter_context(Session(c, record_partitions=False))
                self.s.construct()
            except Exception as e:  # noqa: BLE001
                self.dead = "exception:" + type(e).__name__

        @precondition(lambda self: self.case is not None)
        @rule(k=st.integers(1, 4))
        def step(self, k):
            for _ in range(k):
                if self.dead or len(self.pts) >= gen.budget_of(self.case["algo"]):
                    return
                try:
                    pt, r = self.s.step()
                    self.pts.append(pt)
                except Exception as e:  # noqa: BLE001
                    self.dead = "exception:" + type(e).__name__

        @precondition(lambda self: self.case is not None)
        @rule(k=st.integers(1, 5))
        def query(self, k):
            if self.dead or not self.pts:
                return  # "between rounds": a query before the first round is not in the property
            i = len(self.pts) + 1
            try:
                for _ in range(k):
                    self.s.algo.get_last_point()
                self.q[str(i)] = self.q.get(str(i), 0) + k
            except Exception as e:  # noqa: BLE001
                self.dead = "exception:" + type(e).__name__

        def teardown(self):
            self.stack.close()
            if self.case is None:
                return
            case = copy.deepcopy(self.case)
            case["T"] = len(self.pts)
            case["queries"] = dict(self.q)
            if not self.pts and not self.dead:
                return  # Hypothesis ended the machine before any step: not a case
            if self.dead:
                col.add(sub, case, Outcome(aborted=self.dead))
                return
            out = check_queries(case)
            col.add(sub, case, out)
            if out.violation:
                raise _Found()

    return Queries


def simplify(case):
    T = case["T"]
    for t in (2, 5, 10, 20, T // 2, T - 1):
        if 1 <= t < T:
            c = copy.deepcopy(case)
            c["T"] = t
            if "labels" in c and "list" in c["labels"]:
                c["labels"]["list"] = c["labels"]["list"][:t]
            if "queries" in c:
                c["queries"] = {k: v for k, v in c["queries"].items() if int(k) <= t}
            yield c
    if "queries" in case:
        for k in list(case["queries"]):
            c = copy.deepcopy(case)
            del c["queries"][k]
            if c["queries"]:
                yield c
    if case["partition"]["cls"] != "BinaryPartition":
        c = copy.deepcopy(case)
        c["partition"] = {"cls": "BinaryPartition"}
        yield c
    if len(case["domain"]) > 1:
        c = copy.deepcopy(case)
        c["domain"] = c["domain"][:1]
        yield c


def run_shard(ctx):
    quick = ctx.tier == "quick"
    ctx.drive("labels", label_cases(ctx.tier), check_case, ctx.budget(5000, 40000))
    ctx.drive_machine("queries", make_machine(ctx.col, "queries", ctx.tier), ctx.budget(2400, 16000), steps=25 if quick else 50)
    ctx.drive("dense-queries", dense_query_cases(ctx.tier), check_case, ctx.budget(2400, 20000))
