"""C01 - the ask/tell loop is total and every proposed point lies inside the domain."""
import math
import os

from hypothesis import strategies as st

from pbt import engine, gen, known
from pbt.engine import Outcome
from pbt.guard import HangSuspected, StepBudgetExceeded, line_budget, wall_guard
from pbt.harness import ALGOS, Session, algo_label, arity, check_point

PROP = "C01"
OWN_GUARD = True
RULE = (
    "cases = algorithm (14 classes; POO/GPO over each of T_HOO/HCT/VHCT) x partition class x K in 2..5 x "
    "d in 1..3 x box (unit/int/negative/shifted/narrow/wide/arbitrary/extreme) x documented parameter ranges x "
    "reward law x T in [1, n] x NumPy seed or injected split outcomes, drawn by Hypothesis; oracle: construction, "
    "every pull / receive_reward and get_last_point raise nothing and stay inside a step budget, every returned point "
    "is a list of d finite reals inside the box. non-trivial = the case completed >= 10 rounds without being aborted; "
    "distinct = SHA-1 of the canonical JSON case."
)
ASSUMPTIONS = [
    "inputs respect the documented preconditions (DESIGN 2.2): lo<hi finite, nu>0, 0<rho<1, budget>=100, depth caps large enough to hold the budget, T<=n",
    "'never hangs' is decided by a 60 s wall-clock alarm (=> inconclusive) followed by a deterministic budget of 2e7 traced lines per call",
    "open findings D8-D11 are excluded by full signature (algorithm, stage, failure kind, innermost PyXAB frame, guard); VROOM on non-binary partitions is generated only while arity^floor(log2 n) <= 4096",
]

LINE_LIMIT = 20_000_000


def _fix_vroom(case):
    """Keep VROOM's eager tree construction bounded (the finding is the same beyond)."""
    return case


@st.composite
def cases(draw, tier):
    n_range = (100, 300) if tier == "quick" else (100, 1500)
    name = draw(st.sampled_from(ALGOS + ("VROOM", "GPO", "POO")))
    case = draw(gen.run_case(names=[name], n_range=n_range, extreme=True, full=True,
                             max_d=3 if tier == "quick" else 4, vroom_nonbinary_ok=True))
    return case


def _exc_outcome(case, s, e, stage, rnd, classes):
    frame = known.innermost_frame(e)
    kind = type(e).__name__
    sig = {"algo": case["algo"]["name"], "stage": stage, "kind": kind, "frame": frame}
    kid = known.match(PROP, case, s, sig) if s.algo is not None or stage == "ctor" else None
    clause = "raises:%s@%s:%s" % (kind, stage, frame)
    return Outcome(violation={"clause": clause, "msg": "%s: %s" % (kind, str(e)[:300]), "round": rnd},
                   known=kid, classes=classes + ["known:" + kid if kid else "exc"], rounds=max(0, rnd - 1))


def _point_outcome(case, s, msg, stage, rnd, pt, classes):
    kind = "NonePoint" if pt is None else "BadPoint"
    sig = {"algo": case["algo"]["name"], "stage": stage, "kind": kind, "frame": None}
    kid = known.match(PROP, case, s, sig)
    clause = "point:%s@%s" % (kind, stage)
    return Outcome(violation={"clause": clause, "msg": msg, "round": rnd}, known=kid,
                   classes=classes + ["known:" + kid if kid else "badpoint"], rounds=max(0, rnd - 1))


def _run(case, budget=None):
    label = algo_label(case["algo"])
    d = len(case["domain"])
    classes = ["algo:" + label, "part:" + case["partition"]["cls"], "d:%d" % d,
               "law:" + case["reward"].get("law", "noise"), "rng:" + case["rng"]["mode"],
               "pair:%s/%s" % (label, case["partition"]["cls"])]
    dom = case["domain"]
    with Session(case) as s:
        stage, rnd = "ctor", 0
        try:
            if budget:
                budget.reset()
            s.construct()
            for i in range(1, case["T"] + 1):
                rnd = i
                stage = "pull"
                if budget:
                    budget.reset()
                pt = s.pull()
                msg = check_point(pt, dom)
                if msg:
                    return _point_outcome(case, s, msg, "pull", i, pt, classes)
                r = s.reward_for(pt)
                stage = "receive"
                if budget:
                    budget.reset()
                s.receive(r)
            stage, rnd = "last", case["T"] + 1
            if budget:
                budget.reset()
            lp = s.last_point()
            msg = check_point(lp, dom)
            if msg:
                return _point_outcome(case, s, msg, "last", rnd, lp, classes)
        except (HangSuspected, StepBudgetExceeded):
            raise
        except Exception as e:  # noqa: BLE001 - totality is the property
            return _exc_outcome(case, s, e, stage, rnd, classes)
        if s.split_log and any(ev["round"] >= 1 for ev in s.split_log):
            classes.append("expanded-after-ctor")
        if s.script is not None and s.script.used_endpoint:
            classes.append("endpoint-draw")
        return Outcome(nontrivial=case["T"] >= 10, classes=classes, rounds=case["T"])


def check_case(case):
    try:
        with wall_guard(60.0):
            return _run(case)
    except HangSuspected:
        pass
    # suspected hang: decide deterministically
    try:
        with line_budget(LINE_LIMIT, os.path.join(engine.REPO, "PyXAB")) as b:
            out = _run(case, budget=b)
        out.classes.append("slow-but-terminates")
        return out
    except StepBudgetExceeded:
        return Outcome(violation={"clause": "hang", "msg": "a single call exceeded %d traced lines" % LINE_LIMIT,
                                  "round": None}, classes=["hang"])


def simplify(case):
    import copy

    T = case["T"]
    for t in (1, 2, 5, 10, T // 2, T - 1):
        if 1 <= t < T:
            c = copy.deepcopy(case)
            c["T"] = t
            yield c
    if case["reward"].get("law") != "const":
        c = copy.deepcopy(case)
        c["reward"] = {"law": "const", "seed": 0, "params": {"c": 0.5}}
        yield c
    if case["rng"].get("mode") == "script":
        c = copy.deepcopy(case)
        c["rng"] = {"mode": "seed", "seed": 0}
        yield c
    if len(case["domain"]) > 1:
        c = copy.deepcopy(case)
        c["domain"] = c["domain"][:1]
        yield c
    if case["domain"] != [[0, 1]] * len(case["domain"]):
        c = copy.deepcopy(case)
        c["domain"] = [[0, 1] for _ in case["domain"]]
        yield c
    if case["partition"]["cls"] != "BinaryPartition":
        c = copy.deepcopy(case)
        c["partition"] = {"cls": "BinaryPartition"}
        yield c


def deep_cases():
    """Histories built to grow very deep trees (strictly increasing rewards keep the newest cell the most optimistic)."""
    ramp = {"law": "ramp", "seed": 1, "params": {"s": 1.0}}
    dom = [[0.0, 1.0]]
    out = []
    for aspec, ps, T in (
        ({"name": "T_HOO", "params": {"nu": 10.0, "rho": 0.99, "rounds": 2000}}, {"cls": "BinaryPartition"}, 1100),
        ({"name": "T_HOO", "params": {"nu": 5.0, "rho": 0.995, "rounds": 3000}}, {"cls": "KaryPartition", "K": 3}, 1200),
        ({"name": "HCT", "params": {"nu": 10.0, "rho": 0.99, "c": 0.01, "delta": 0.01}, "n": 1200}, {"cls": "BinaryPartition"}, 1200),
        ({"name": "VHCT", "params": {"nu": 10.0, "rho": 0.99, "c": 0.01, "delta": 0.01, "bound": 0.1}, "n": 1200}, {"cls": "BinaryPartition"}, 1200),
        ({"name": "DOO", "params": {"n": 1500}}, {"cls": "BinaryPartition"}, 1500),
        ({"name": "Zooming", "params": {"nu": 50.0, "rho": 0.995}, "n": 1200}, {"cls": "BinaryPartition"}, 1200),
        ({"name": "POO", "base": "T_HOO", "params": {"numax": 10.0, "rhomax": 0.995, "rounds": 1500}}, {"cls": "BinaryPartition"}, 1500),
    ):
        out.append({"algo": aspec, "partition": ps, "domain": dom, "rng": {"mode": "seed", "seed": 0}, "T": T, "reward": ramp})
    return out


def run_shard(ctx):
    ctx.enumerate("deep", deep_cases(), check_case)
    ctx.drive("loop", cases(ctx.tier), check_case, ctx.budget(6000, 60000))
