"""C04 - every reward is credited exactly once to the cell(s) that produced the point."""
import copy
import math

import numpy as np

from pbt import gen
from pbt.engine import Outcome, Violation
from pbt.harness import Unattributable, Session, algo_label, ancestors, iter_tree

PROP = "C04"
RULE = (
    "cases = all 14 algorithms x partition x box x parameters x reward laws with (almost surely) distinct values x T <= n. "
    "Per round the evidence (count, reward list, mean, variance) of EVERY cell ever created in EVERY partition of the run (and every "
    "Zooming arm, POO/GPO score) is snapshotted before pull, after pull and after receive_reward; oracle: pull changes no evidence "
    "(sole exception: StroquOOL's documented reset of its final candidates), receive_reward changes exactly the expected credit set "
    "(pulled cell; T_HOO: cell + all ancestors; VROOM: chain drawn cell..sampled cell; Zooming: pulled arm; POO/GPO: the tree of the "
    "learner that proposed the point by that learner's rule, GPO validation rounds: only the current score), each by exactly one "
    "appended reward equal to the round's reward; after every round every cell reachable from a root has count == len(ledger), "
    "reward list == ledger, mean == fsum/len, VHCT variance == max(pvariance, 1e-3), and the counts sum to the rounds served. "
    "non-trivial = >= 20 rounds and >= 1 expansion after the first reward; distinct = SHA-1 of the JSON case."
)
ASSUMPTIONS = [
    "means are compared with relative tolerance 1e-9 (scaled by the largest |reward|), variances with 1e-7",
    "StroquOOL rounds after it declared itself finished ('just passes' mode) are outside the check",
    "the drawn cell of VROOM is read from curr_node (named in the property's observe_at); its relation to the sampling is C13's",
]

MEAN_ALGOS = ("T_HOO", "HCT", "VHCT", "StoSOO")
SCALAR_NODES = ("DOO", "SOO")


def node_evidence(n):
    cnt = getattr(n, "visited_times", None)
    if hasattr(n, "rewards"):
        rw = tuple(n.rewards)
    elif isinstance(getattr(n, "reward", None), list):
        rw = tuple(n.reward)
    elif hasattr(n, "reward"):
        rw = (n.reward,)
    else:
        rw = ()
    return (cnt, rw)


def snapshot(s):
    snap = {}
    for rec in s.recs:
        for n in rec.nodes:
            snap[id(n)] = node_evidence(n)
    return snap


def side_snapshot(s, name):
    a = s.algo
    if name in ("PCT", "VPCT"):
        a = a.algorithm
    if name == "Zooming":
        return {id(arm): (a.pulled_times[arm], a.average_rewards[arm]) for arm in a.active_points}
    if name == "POO":
        return {"V": tuple(a.V_reward), "T": tuple(a.Times)}
    if name in ("GPO", "PCT", "VPCT"):
        return {"V": tuple(a.V_reward)}
    return None


def inner_rule(base_name, cell):
    if base_name == "T_HOO":
        return [cell] + ancestors(cell)
    return [cell]


def close(a, b, scale, rel=1e-9):
    return abs(float(a) - float(b)) <= rel * max(1.0, scale)


class Ledger:
    def __init__(self):
        self.by_cell = {}
        self.reset_done = set()

    def credit(self, cell, r):
        self.by_cell.setdefault(id(cell), []).append(r)

    def get(self, cell):
        return self.by_cell.get(id(cell), [])


def _check_tree(name, root, ledger, rounds_expected, rnd, scalar_default, stroq_reset):
    total = 0
    for n in iter_tree(root):
        led = ledger.get(n)
        cnt, rw = node_evidence(n)
        where = "cell (%d,%d)" % (n.get_depth(), n.get_index())
        if name in SCALAR_NODES:
            want = (led[-1],) if led else (scalar_default,)
            if rw != want and not (len(rw) == 1 and len(want) == 1 and rw[0] == want[0]):
                raise Violation("evidence", "%s stores reward %r, history says %r" % (where, rw, want), rnd)
            total += len(led)
            continue
        if cnt is not None and cnt != len(led):
            raise Violation("count", "%s count %r, history credited it %d times" % (where, cnt, len(led)), rnd)
        want = led
        if name == "StroquOOL" and id(n) in stroq_reset:
            want = led[stroq_reset[id(n)]:]
        if list(rw) != list(want):
            raise Violation("reward-list", "%s reward list %r, history %r" % (where, list(rw)[:8], list(want)[:8]), rnd)
        total += len(led)
        if name in MEAN_ALGOS and led:
            scale = max(abs(float(x)) for x in led)
            m = math.fsum(float(x) for x in led) / len(led)
            if not close(n.get_mean_reward(), m, scale):
                raise Violation("mean", "%s mean %r, history mean %r" % (where, n.get_mean_reward(), m), rnd)
            if name == "VHCT":
                var = max(math.fsum((float(x) - m) ** 2 for x in led) / len(led), 1e-3)
                if not close(n.variance, var, scale * scale, rel=1e-7):
                    raise Violation("variance", "%s variance %r, history %r" % (where, n.variance, var), rnd)
    return total


def check_case(case):
    name = case["algo"]["name"]
    label = algo_label(case["algo"])
    classes = ["algo:" + label, "part:" + case["partition"]["cls"], "law:" + case["reward"].get("law", "noise")]
    wrapper = name in ("POO", "GPO", "PCT", "VPCT")
    base_name = {"PCT": "HCT", "VPCT": "VHCT"}.get(name, case["algo"].get("base"))
    ledger = Ledger()
    arm_ledger = {}
    learner_rounds = {}
    val_ledger = []
    stroq_reset = {}
    stopped_internal = False
    try:
        with Session(case, record_learners=wrapper) as s:
            try:
                s.construct()
            except Exception as e:  # noqa: BLE001
                return Outcome(aborted="exception:" + type(e).__name__, classes=classes)
            T = case["T"]
            for i in range(1, T + 1):
                try:
                    S0, Z0 = snapshot(s), side_snapshot(s, name)
                    ncalls0 = len(s.learner_calls)
                    pt = s.pull()
                    S1, Z1 = snapshot(s), side_snapshot(s, name)
                    r = s.reward_for(pt)
                    finished = name == "StroquOOL" and s.algo.end
                    gpo_active = None
                    if name in ("GPO", "PCT", "VPCT"):
                        ga = s.algo.algorithm if name != "GPO" else s.algo
                        gpo_active = ga.phase <= ga.N
                    s.receive(r)
                    S2, Z2 = snapshot(s), side_snapshot(s, name)
                except Violation:
                    raise
                except Exception as e:  # noqa: BLE001 - totality is C01's
                    return Outcome(aborted="exception:" + type(e).__name__, classes=classes, rounds=i - 1)
                # ---- pull must not touch evidence
                for k, v in S0.items():
                    if S1.get(k) != v:
                        if name == "StroquOOL" and S1[k][1] == () and S1[k][0] == v[0] and k not in stroq_reset and \
                                any(id(c) == k for c in s.algo.candidate):
                            stroq_reset[k] = len(ledger.by_cell.get(k, []))
                            continue
                        raise Violation("pull-changes-evidence", "pull() changed the evidence of a cell: %r -> %r" % (v, S1.get(k)), i)
                if Z0 is not None and name == "Zooming" and Z0 != Z1:
                    raise Violation("pull-changes-evidence", "pull() changed arm statistics", i)
                if finished:
                    continue
                # ---- expected credit set
                calls = s.learner_calls[ncalls0:]
                expected = []
                if name == "Zooming":
                    arms = [a for a in s.algo.active_points if a.get_point() is pt] or \
                        [a for a in s.algo.active_points if list(a.get_point()) == list(pt)]
                    # the arm may have been re-assigned, but it stays the same object
                    if len(arms) != 1:
                        raise Violation("arm-identity", "returned point belongs to %d active arms" % len(arms), i)
                    arm = arms[0]
                    arm_ledger.setdefault(id(arm), []).append(r)
                    changed = [k for k in Z2 if k in Z1 and Z2[k] != Z1[k]]
                    if changed != [id(arm)]:
                        raise Violation("credit-set", "arms whose statistics changed: %d, expected exactly the pulled arm" % len(changed), i)
                    for k, (cnt, mean) in Z2.items():
                        led = arm_ledger.get(k, [])
                        if cnt != len(led):
                            raise Violation("count", "arm pulled %d times by history, records %r" % (len(led), cnt), i)
                        if led:
                            scale = max(abs(float(x)) for x in led)
                            if not close(mean, math.fsum(float(x) for x in led) / len(led), scale):
                                raise Violation("mean", "arm mean %r, history %r" % (mean, math.fsum(led) / len(led)), i)
                        elif mean != 0:
                            raise Violation("mean", "fresh arm has mean %r" % (mean,), i)
                    if any(S2[k] != v for k, v in S1.items()):
                        raise Violation("credit-set", "Zooming changed node evidence", i)
                    continue
                cell = s.cell_of(pt)
                validation = False
                if wrapper:
                    pulls = [c for c in calls if c[0] == "pull"]
                    recvs = [c for c in calls if c[0] == "receive"]
                    if name == "POO":
                        if len(pulls) != 1 or len(recvs) != 1 or pulls[0][1] != recvs[0][1]:
                            raise Violation("routing", "learner calls in this round: %r" % (calls,), i)
                    if pulls:
                        if cell is None:
                            raise Violation("point-identity", "returned point is not the representative of any cell", i)
                        lidx = pulls[0][1]
                        learner_rounds[lidx] = learner_rounds.get(lidx, 0) + 1
                        owner = s.learners[lidx].obj.partition
                        if s.rec_of(pt).part is not owner:
                            raise Violation("routing", "point comes from another learner's tree", i)
                        expected = inner_rule(base_name, cell)
                        if [c for c in recvs] != [("receive", lidx, i, "receive")]:
                            raise Violation("routing", "reward not delivered to the proposing learner exactly once: %r" % (recvs,), i)
                    else:
                        validation = True
                        if recvs:
                            raise Violation("routing", "a validation/finished round reached a learner: %r" % (recvs,), i)
                elif name == "VROOM":
                    node = s.sampled.get(id(pt))
                    if node is None:
                        raise Violation("point-identity", "returned point was not sampled from a cell", i)
                    chain = [node]
                    top = s.algo.curr_node
                    while chain[-1] is not top:
                        p = chain[-1].get_parent()
                        if p is None:
                            raise Violation("chain", "sampled cell is not a descendant of the drawn cell", i)
                        chain.append(p)
                    expected = chain
                else:
                    if cell is None:
                        raise Violation("point-identity", "returned point is not the representative of any cell", i)
                    expected = inner_rule(name, cell)
                    if name in ("HCT", "VHCT") and cell.get_children() is not None and S1[id(cell)][0] is not None:
                        stopped_internal = True
                exp_ids = set(id(c) for c in expected)
                changed = set(k for k in S2 if k in S1 and S2[k] != S1[k])
                new_nodes = [k for k in S2 if k not in S1]
                for k in new_nodes:
                    cnt, rw = S2[k]
                    if (cnt not in (None, 0)) or (name not in SCALAR_NODES and rw != ()):
                        raise Violation("new-cell-evidence", "a new cell starts with evidence %r" % ((cnt, rw),), i)
                if changed != exp_ids:
                    def lab(k):
                        for rec in s.recs:
                            for n in rec.nodes:
                                if id(n) == k:
                                    return (n.get_depth(), n.get_index())
                    raise Violation("credit-set", "cells whose evidence changed %r, expected %r (pulled cell %r)" % (
                        sorted(lab(k) for k in changed), sorted(lab(k) for k in exp_ids),
                        (cell.get_depth(), cell.get_index()) if cell is not None else None), i)
                for c in expected:
                    ledger.credit(c, r)
                    c0, rw0 = S1[id(c)]
                    c2, rw2 = S2[id(c)]
                    if name in SCALAR_NODES:
                        if rw2 != (r,):
                            raise Violation("credit-value", "cell stores %r after reward %r" % (rw2, r), i)
                    else:
                        if c0 is not None and c2 != c0 + 1:
                            raise Violation("credit-once", "count went %r -> %r" % (c0, c2), i)
                        if rw2 != rw0 + (r,):
                            raise Violation("credit-once", "reward list went %r -> %r for reward %r" % (rw0[-3:], rw2[-4:], r), i)
                # ---- side scores
                if name == "POO":
                    lidx = pulls[0][1]
                    dV = [j for j in range(len(Z2["V"])) if j >= len(Z1["V"]) or Z2["V"][j] != Z1["V"][j] or Z2["T"][j] != Z1["T"][j]]
                    if [j for j in dV if j != lidx]:
                        raise Violation("score-routing", "scores of learners %r changed, round served by %d" % (dV, lidx), i)
                if name in ("GPO", "PCT", "VPCT"):
                    if validation:
                        changedV = [j for j in range(len(Z2["V"])) if j >= len(Z1["V"]) or Z2["V"][j] != Z1["V"][j]]
                        if len(Z0["V"]) != len(Z1["V"]):
                            val_ledger = []
                        if not gpo_active:
                            if changedV:
                                raise Violation("score-routing", "a reward after the last phase changed scores %r" % (changedV,), i)
                        else:
                            if [j for j in changedV if j != len(Z2["V"]) - 1]:
                                raise Violation("score-routing", "validation reward changed scores %r" % (changedV,), i)
                            val_ledger.append(r)
                            scale = max(abs(float(x)) for x in val_ledger)
                            if not close(Z2["V"][-1], math.fsum(float(x) for x in val_ledger) / len(val_ledger), scale):
                                raise Violation("score-mean", "validation score %r, mean of its %d rewards %r" % (
                                    Z2["V"][-1], len(val_ledger), math.fsum(val_ledger) / len(val_ledger)), i)
                    elif Z2["V"] != Z1["V"]:
                        raise Violation("score-routing", "an exploration round changed a validation score", i)
                # ---- whole-tree agreement with the history
                if name == "VROOM":
                    _check_tree(name, s.recs[0].part.get_root(), ledger, None, i, None, stroq_reset)
                elif wrapper:
                    for lg in s.learners:
                        tot = _check_tree(base_name, lg.obj.partition.get_root(), ledger, None, i, None, stroq_reset)
                        served = learner_rounds.get(lg.index, 0)
                        if base_name == "T_HOO":
                            got = lg.obj.partition.get_root().get_visited_times()
                        else:
                            got = tot
                        if got != served:
                            raise Violation("count-sum", "learner %d served %d rounds, its tree accounts for %d" % (lg.index, served, got), i)
                else:
                    part = s.main_partition()
                    default = -np.inf
                    tot = _check_tree(name, part.get_root(), ledger, None, i, default, stroq_reset)
                    done = i
                    if name == "T_HOO":
                        tot = part.get_root().get_visited_times()
                    if tot != done:
                        raise Violation("count-sum", "%d rounds completed, reachable cells account for %d" % (done, tot), i)
            T = case["T"]
            late = any(ev["round"] >= 2 for ev in s.split_log)
            if late:
                classes.append("expansion-after-first-reward")
            if stopped_internal:
                classes.append("hct-stopped-at-internal-cell")
            return Outcome(nontrivial=T >= 20 and late, classes=classes, rounds=T)
    except Unattributable:
        return Outcome(aborted="point-matches-several-cells", classes=classes)
    except Violation as v:
        return Outcome(violation=v.as_dict(), classes=classes, rounds=v.round or 0)


def simplify(case):
    T = case["T"]
    for t in (1, 2, 5, 10, 20, T // 2, T - 1):
        if 1 <= t < T:
            c = copy.deepcopy(case)
            c["T"] = t
            yield c
    if len(case["domain"]) > 1:
        c = copy.deepcopy(case)
        c["domain"] = c["domain"][:1]
        yield c
    if case["domain"] != [[0, 1]] * len(case["domain"]):
        c = copy.deepcopy(case)
        c["domain"] = [[0, 1] for _ in case["domain"]]
        yield c
    if case["rng"].get("mode") == "script":
        c = copy.deepcopy(case)
        c["rng"] = {"mode": "seed", "seed": 0}
        yield c
    if case["partition"]["cls"] != "BinaryPartition":
        c = copy.deepcopy(case)
        c["partition"] = {"cls": "BinaryPartition"}
        yield c


LAWS = ["noise", "noise", "ramp", "peak", "peakpos", "bump", "negative", "large", "ties", "twolevel", "twolevel"]


def run_shard(ctx):
    quick = ctx.tier == "quick"
    ctx.drive("ledger", gen.run_case(T_max=200 if quick else 500, n_range=(100, 700) if quick else (100, 1500),
                                     laws=LAWS, poo_ok_only=True, gpo_ok_only=True, script_prob=0.25, T_min=5),
              check_case, ctx.budget(5000, 40000))
