"""C06 - tree bandits grow only at the pulled leaf, under the published rule."""
from pbt import gen, hoofam
from pbt.hoofam import simplify  # noqa: F401

PROP = "C06"
RULE = (
    "cases as for C05. From the make_children calls recorded per partition instance in each round: at most one; its parent is the "
    "cell just pulled; that cell had no children; new cells have zero pulls and infinite U and B; the root is split exactly once at "
    "construction. T-HOO: expansion <=> depth <= ceil((ln n / 2 - ln(1/nu)) / ln(1/rho)), tree depth <= that bound + 1. HCT/VHCT: "
    "expansion <=> (leaf and pulls >= tau) with the reference tau of round t; tolerated ambiguities: t+(t) vs t+(t+1), VHCT variance "
    "before vs after the round's reward, ceil arguments within 1e-9. non-trivial = >= 3 expansions and >= 1 round in which the "
    "pulled cell was not expanded; the evidence reports how many runs stopped at an internal cell; distinct = SHA-1 of the case."
)
ASSUMPTIONS = [
    "rounds whose t+ is below 2 c1 delta (one of the code's delta~ caps may be active) are not judged",
    "expansions are observed through a recording subclass of the partition class (no source hooks)",
]


def check_case(case):
    return hoofam.run(case, "C06")


LAWS = ["peak", "peakpos", "bump", "noise", "noise", "ties", "negative", "large", "const", "ramp", "twolevel", "twolevel"]


def run_shard(ctx):
    quick = ctx.tier == "quick"
    ctx.drive("growth", gen.run_case(names=["T_HOO", "HCT", "VHCT", "HCT", "VHCT"], laws=LAWS, hct_caps_inactive=True,
                                     T_max=300 if quick else 1000, n_range=(100, 300) if quick else (100, 1000),
                                     script_prob=0.25, T_min=5, full_T_prob=0.3),
              check_case, ctx.budget(6000, 40000))
