"""C17 - synthetic objectives never exceed their declared maximum and attain it."""
import copy
import math

import numpy as np
from hypothesis import strategies as st

from pbt.engine import Outcome

PROP = "C17"
RULE = (
    "cases = objective (Garland, DoubleSine(rho1,rho2 in [0.05,1], tmax in [0,1]), DifficultFunc, Ackley(+normalised), "
    "Himmelblau(+normalised), Rastrigin(+normalised, dimension 1..4, k), Cexample, Perturbed_Garland/DoubleSine with a seeded "
    "offset) x a point of its documented box drawn from a mixture: arbitrary floats, box end points, structured special points "
    "(maximisers, Garland cusps k*pi/60, DoubleSine tmax +- 2^-j, DifficultFunc 0.5 +- e^-m, log-scale neighbourhoods of 0) and "
    "their +-8-ulp / +-10^-e neighbours, as a list of float / int / np.float64 or as a 1-D float NumPy array, with Hypothesis target(f(x)-fmax) steering the search; "
    "oracle: f(x) finite real, f(x) <= fmax (zero tolerance except Ackley: 8 ulp of 22.7), evaluation pure (twice, after other "
    "objectives and RNG reseeding, on a second instance that evaluated other points / other dimensions first, input not mutated); subcheck 'attain': fmax - f(x*) <= 1e-12 at the documented maximisers "
    "(Garland: f(pi/6) > 1 - 0.003); subcheck 'dimension': wrong-length points raise ValueError. non-trivial = the point is "
    "within 1e-3 width of a special point or on the box boundary; distinct = SHA-1 of (objective, params, x)."
)
ASSUMPTIONS = [
    "x ranges over IEEE doubles of the documented box; the supremum over the continuum is attacked, not enclosed",
    "Ackley's bound is checked with a tolerance of 8 ulp(22.7) ~ 2.8e-14 (its value at the maximiser is a cancellation of terms of size 20)",
    "DoubleSine parameters restricted to rho1, rho2 in [0.05, 1], tmax in [0, 1] (the property's quantifier)",
]

ACKLEY_TOL = 8 * math.ulp(22.7)
INV_E = 1 / np.e

HIMMEL_MAX = [[3.0, 2.0], [-2.805118, 3.131312], [-3.779310, -3.283186], [3.584428, -1.848126]]


def boxes(name, params):
    if name in ("Garland", "Perturbed_Garland", "DoubleSine", "Perturbed_DoubleSine", "DifficultFunc"):
        return [[0.0, 1.0]]
    if name in ("Ackley", "Ackley_Normalized"):
        return [[-1.0, 1.0]] * 2
    if name in ("Himmelblau", "Himmelblau_Normalized"):
        return [[-5.0, 5.0]] * 2
    if name in ("Rastrigin", "Rastrigin_Normalized"):
        return [[-1.0, 1.0]] * params.get("p", 1)
    if name == "Cexample":
        return [[0.0, float(INV_E)]]
    raise ValueError(name)


def specials(name, params, k):
    """Special coordinates along dimension k."""
    if name in ("Garland", "Perturbed_Garland"):
        return [j * math.pi / 60 for j in range(0, 20)] + [0.5]
    if name in ("DoubleSine", "Perturbed_DoubleSine"):
        t = params["tmax"]
        out = [t]
        for j in range(0, 62, 3):
            out += [t + 2.0 ** -j, t - 2.0 ** -j, t + 0.5 * 2.0 ** -j, t - 0.5 * 2.0 ** -j]
        return out
    if name == "DifficultFunc":
        out = [0.5]
        for m in range(1, 40, 2):
            for e in (m, m + 0.5):
                out += [0.5 + math.exp(-e), 0.5 - math.exp(-e)]
        return out
    if name in ("Ackley", "Ackley_Normalized", "Rastrigin", "Rastrigin_Normalized"):
        out = [0.0, 0.5, -0.5]
        for e in (1, 3, 8, 16, 100, 300, 320):
            out += [10.0 ** -e, -(10.0 ** -e)]
        return out
    if name in ("Himmelblau", "Himmelblau_Normalized"):
        return [m[k] for m in HIMMEL_MAX]
    if name == "Cexample":
        return [0.0, 5e-324, 1e-300, 1e-10, float(INV_E), 0.1]
    return []


def construct(name, params):
    import importlib

    modname = {"Perturbed_Garland": "Garland", "Perturbed_DoubleSine": "DoubleSine", "Ackley_Normalized": "Ackley",
               "Himmelblau_Normalized": "Himmelblau", "Rastrigin_Normalized": "Rastrigin"}.get(name, name)
    mod = importlib.import_module("PyXAB.synthetic_obj." + modname)
    cls = getattr(mod, name)
    if name.startswith("Perturbed"):
        np.random.seed(params.get("perturb_seed", 0) % 2 ** 32)
    if name in ("DoubleSine", "Perturbed_DoubleSine"):
        return cls(rho1=params["rho1"], rho2=params["rho2"], tmax=params["tmax"])
    if name == "Rastrigin_Normalized" and "k" in params:
        return cls(k=params["k"])
    return cls()


OBJECTIVES = ["Garland", "Perturbed_Garland", "DoubleSine", "Perturbed_DoubleSine", "DifficultFunc", "Ackley",
              "Ackley_Normalized", "Himmelblau", "Himmelblau_Normalized", "Rastrigin", "Rastrigin_Normalized", "Cexample"]


def _step(v, k):
    for _ in range(abs(k)):
        v = math.nextafter(v, math.inf if k > 0 else -math.inf)
    return v


@st.composite
def coord(draw, name, params, k, lo, hi):
    kind = draw(st.integers(0, 9))
    if kind <= 2:
        v = draw(st.floats(lo, hi, allow_nan=False))
    elif kind == 3:
        v = draw(st.sampled_from([lo, hi, _step(lo, 1), _step(hi, -1)]))
    else:
        sp = specials(name, params, k)
        v = draw(st.sampled_from(sp)) if sp else draw(st.floats(lo, hi))
        if kind <= 6:
            v = _step(v, draw(st.integers(-8, 8)))
        elif kind <= 8:
            v = v + draw(st.sampled_from([1, -1])) * 10.0 ** -draw(st.integers(3, 17)) * draw(st.floats(0.5, 2))
    return min(max(float(v), lo), hi)


@st.composite
def cases(draw):
    name = draw(st.sampled_from(OBJECTIVES))
    params = {}
    if name in ("DoubleSine", "Perturbed_DoubleSine"):
        r = st.one_of(st.floats(0.05, 1.0), st.sampled_from([0.05, 1.0, 0.5, 0.3, 0.8]))
        params = {"rho1": draw(r), "rho2": draw(r),
                  "tmax": draw(st.one_of(st.floats(0, 1), st.sampled_from([0.0, 1.0, 0.5])))}
    if name in ("Rastrigin", "Rastrigin_Normalized"):
        params["p"] = draw(st.integers(1, 4))
        if name == "Rastrigin_Normalized" and draw(st.booleans()):
            params["k"] = draw(st.sampled_from([20, 1, 40.5]))
    if name.startswith("Perturbed"):
        params["perturb_seed"] = draw(st.integers(0, 10000))
    box = boxes(name, params)
    x = [draw(coord(name, params, k, lo, hi)) for k, (lo, hi) in enumerate(box)]
    # "array": the point as a 1-D float64 NumPy array - not the documented container (a list), but accepted by every
    # objective of the unchanged library; an exception on it is inconclusive, a wrong or impure value is not
    xtype = draw(st.sampled_from(["float", "float", "float", "np", "np", "int", "int", "array"]))
    if xtype == "int":
        x = [float(round(v)) if box[k][0] <= round(v) <= box[k][1] else v for k, v in enumerate(x)]
    return {"obj": name, "params": params, "x": x, "xtype": xtype}


def _typed(x, xtype):
    if xtype == "array":
        return np.array([float(v) for v in x], dtype=float)
    if xtype == "np":
        return [np.float64(v) for v in x]
    if xtype == "int":
        return [int(v) if float(v).is_integer() else v for v in x]
    return list(x)


def _is_real(v):
    return isinstance(v, (int, float, np.floating, np.integer)) and not isinstance(v, bool)


def check_point(case):
    name, params = case["obj"], case["params"]
    classes = ["obj:" + name, "xtype:" + case["xtype"]]
    obj = construct(name, params)
    x = _typed(case["x"], case["xtype"])
    x_before = copy.deepcopy(x)
    with np.errstate(all="ignore"):
        try:
            fx = obj.f(x)
        except Exception as e:  # noqa: BLE001 - evaluation inside the documented box must not raise
            if case["xtype"] == "array":
                return Outcome(aborted="array-rejected:" + type(e).__name__, classes=classes)
            return Outcome(violation={"clause": "raises", "msg": "%s(%r).f(%r): %s: %s" % (name, params, x, type(e).__name__, e),
                                      "round": None}, classes=classes)
        fmax = obj.fmax
        if not _is_real(fx) or not math.isfinite(fx):
            return Outcome(violation={"clause": "finite", "msg": "%s(%r).f(%r) = %r" % (name, params, x, fx), "round": None},
                           classes=classes)
        tol = 0.0
        if name == "Ackley":
            tol = ACKLEY_TOL
        elif name == "Ackley_Normalized":
            tol = ACKLEY_TOL / 4.9
        if fx > fmax + tol:
            return Outcome(violation={"clause": "exceeds-fmax", "msg": "%s(%r).f(%r) = %r > fmax = %r" % (name, params, x, fx, fmax),
                                      "round": None}, classes=classes, info={"target": float(fx - fmax)})
        if case.get("light"):  # dense sub-check: bound and finiteness only
            return Outcome(nontrivial=False, classes=classes + ["near-max"], rounds=1)  # counted, not digested (millions)
        # purity
        if any(type(a) is not type(b) or a != b for a, b in zip(x, x_before)) or len(x) != len(x_before):
            return Outcome(violation={"clause": "input-mutated", "msg": "%s.f changed its argument %r -> %r" % (name, x_before, x),
                                      "round": None}, classes=classes)
        f2 = obj.f(x)
        np.random.seed(12345)
        other = construct("Garland", {})
        other.f([0.3])
        construct("Rastrigin", {}).f([0.1, 0.2])
        np.random.seed(7)
        np.random.normal()
        f3 = obj.f(_typed(case["x"], case["xtype"]))
        if not (f2 == fx and f3 == fx):
            return Outcome(violation={"clause": "impure", "msg": "%s(%r).f(%r) gave %r, %r, %r" % (name, params, x, fx, f2, f3),
                                      "round": None}, classes=classes)
        # history independence: a second instance (same construction seed for the perturbed variants) that has
        # evaluated OTHER points first - other coordinates and, where the objective takes any dimension, another
        # dimension - must give the same value at x
        obj2 = construct(name, params)
        if obj2.fmax != fmax:
            return Outcome(violation={"clause": "impure", "msg": "%s: same construction, different fmax" % name, "round": None}, classes=classes)
        bx = boxes(name, params)
        others = [[(lo + hi) / 2 for lo, hi in bx], [lo + 0.25 * (hi - lo) for lo, hi in bx]]
        if name in ("Rastrigin", "Rastrigin_Normalized"):
            for q in (1, 2, 3, 4):
                if q != len(bx):
                    others.append([0.3] * q)
        for k, v in enumerate(case["x"]):
            if float(v).is_integer():
                # x sits on the integer lattice: evaluate its lattice neighbours first (a cache keyed by a
                # hash of the point can confuse them: hash(-1.0) == hash(-2.0) in CPython)
                for w in (-2.0, -1.0, 0.0, 1.0, 2.0):
                    if w != v and bx[k][0] <= w <= bx[k][1]:
                        others.append([w if j == k else u for j, u in enumerate(case["x"])])
        for sc in (2.0 ** -61, 2.0 ** 61):
            # CPython hashes doubles modulo 2^61 - 1: m*2^(e-61) and m*2^e collide
            cand = [float(v) * sc for v in case["x"]]
            if all(bx[k][0] <= c <= bx[k][1] for k, c in enumerate(cand)) and cand != [float(v) for v in case["x"]]:
                others.append(cand)
        # points of another dimension first (a value cached at the very first call must not leak), then the rest
        others.sort(key=lambda o: (len(o) == len(bx),))
        for o in others:
            obj2.f(o)
        f4 = obj2.f(_typed(case["x"], case["xtype"]))
        if not (f4 == fx):
            return Outcome(violation={"clause": "impure", "msg": "%s(%r).f(%r) = %r on a fresh instance but %r on an instance that evaluated %r first" % (
                name, params, x, fx, f4, others), "round": None}, classes=classes)
    box = boxes(name, params)
    nt = False
    for k, (v, (lo, hi)) in enumerate(zip(case["x"], box)):
        w = hi - lo
        if v == lo or v == hi:
            nt = True
        if any(abs(v - s) <= 1e-3 * w for s in specials(name, params, k)):
            nt = True
    if nt:
        classes.append("near-special-or-boundary")
    gap = float(fmax - fx)
    classes.append("gap<1e-6" if gap < 1e-6 else ("gap<1e-2" if gap < 1e-2 else "gap>=1e-2"))
    return Outcome(nontrivial=nt, classes=classes, rounds=1, info={"target": float(fx - fmax)})


def attain_cases():
    out = []
    out.append({"attain": "Garland", "params": {}, "x": [math.pi / 6]})
    for t in (0.0, 0.5, 1.0, 0.3, 0.123456789):
        for r1, r2 in ((0.3, 0.8), (0.05, 1.0), (1.0, 0.05), (0.5, 0.5)):
            out.append({"attain": "DoubleSine", "params": {"rho1": r1, "rho2": r2, "tmax": t}, "x": [t]})
            out.append({"attain": "Perturbed_DoubleSine", "params": {"rho1": r1, "rho2": r2, "tmax": t, "perturb_seed": 3}, "x": [t]})
    out.append({"attain": "DifficultFunc", "params": {}, "x": [0.5]})
    out.append({"attain": "Ackley", "params": {}, "x": [0.0, 0.0]})
    out.append({"attain": "Ackley_Normalized", "params": {}, "x": [0.0, 0.0]})
    out.append({"attain": "Himmelblau", "params": {}, "x": [3.0, 2.0]})
    out.append({"attain": "Himmelblau_Normalized", "params": {}, "x": [3.0, 2.0]})
    for p in (1, 2, 3, 4):
        out.append({"attain": "Rastrigin", "params": {"p": p}, "x": [0.0] * p})
        out.append({"attain": "Rastrigin_Normalized", "params": {"p": p}, "x": [0.0] * p})
    out.append({"attain": "Cexample", "params": {}, "x": [0.0]})
    out.append({"attain": "Cexample", "params": {}, "x": [0]})
    return out


def check_attain(case):
    name = case["attain"]
    obj = construct(name, case["params"])
    with np.errstate(all="ignore"):
        fx = obj.f(list(case["x"]))
    classes = ["attain:" + name]
    if name == "Garland":
        ok = 1 - 0.003 < fx <= obj.fmax
        msg = "Garland.f([pi/6]) = %r, declared fmax %r must overshoot by < 0.003" % (fx, obj.fmax)
    else:
        ok = abs(obj.fmax - fx) <= 1e-12
        msg = "%s(%r): fmax = %r but f(maximiser %r) = %r" % (name, case["params"], obj.fmax, case["x"], fx)
    if not ok:
        return Outcome(violation={"clause": "attain", "msg": msg, "round": None}, classes=classes)
    return Outcome(nontrivial=True, classes=classes, rounds=1)


def dimension_cases():
    out = []
    for name in OBJECTIVES:
        if name.startswith("Rastrigin"):
            continue
        params = {"rho1": 0.3, "rho2": 0.8, "tmax": 0.5} if "DoubleSine" in name else {}
        d = len(boxes(name, params))
        for wrong in range(0, 5):
            if wrong != d:
                out.append({"wrongdim": name, "params": params, "x": [0.1] * wrong})
    return out


def check_dimension(case):
    name = case["wrongdim"]
    obj = construct(name, case["params"])
    classes = ["wrongdim:" + name]
    try:
        r = obj.f(list(case["x"]))
    except ValueError:
        return Outcome(nontrivial=True, classes=classes, rounds=1)
    except Exception as e:  # noqa: BLE001
        return Outcome(violation={"clause": "wrong-dimension", "msg": "%s.f(%r) raised %s instead of ValueError" % (name, case["x"], type(e).__name__),
                                  "round": None}, classes=classes)
    return Outcome(violation={"clause": "wrong-dimension", "msg": "%s.f(%r) returned %r instead of raising ValueError" % (name, case["x"], r),
                              "round": None}, classes=classes)


def check_case(case):
    if "attain" in case:
        return check_attain(case)
    if "wrongdim" in case:
        return check_dimension(case)
    return check_point(case)


def near_max_cases(tier, shard=0, nshards=1):
    """Dense sampling of the thin neighbourhood of each maximiser, log-uniform in the distance (1e-1 .. 1e-16 of
    the box width): where the terms of f cancel and a last-bit difference decides the sign of fmax - f."""
    import random

    rng = random.Random(20260929 * 1000 + shard)  # every shard draws its own share
    per = (100000 if tier == "quick" else 1000000) // nshards
    centres = {
        "Garland": [[math.pi / 6], [0.5]], "Perturbed_Garland": [[math.pi / 6]],
        "DoubleSine": [[0.5]], "Perturbed_DoubleSine": [[0.5]], "DifficultFunc": [[0.5]],
        "Ackley": [[0.0, 0.0]], "Ackley_Normalized": [[0.0, 0.0]],
        "Himmelblau": HIMMEL_MAX, "Himmelblau_Normalized": HIMMEL_MAX,
        "Rastrigin": [[0.0, 0.0]], "Rastrigin_Normalized": [[0.0, 0.0]], "Cexample": [[0.0]],
    }
    for name, cs in centres.items():
        params = {"rho1": 0.3, "rho2": 0.8, "tmax": 0.5} if "DoubleSine" in name else ({"p": 2} if "Rastrigin" in name else {})
        if name.startswith("Perturbed"):
            params["perturb_seed"] = 11
        bx = boxes(name, params)
        for i in range(per * (6 if len(bx) == 1 else 1)):
            c = cs[i % len(cs)]
            x = []
            for k, (lo, hi) in enumerate(bx):
                off = (hi - lo) * 10.0 ** (-rng.uniform(1, 16)) * rng.choice((-1, 1))
                x.append(min(max(c[k] + off, lo), hi))
            yield {"obj": name, "params": params, "x": x, "xtype": "float", "light": True}


def run_shard(ctx):
    ctx.enumerate("near-max", near_max_cases(ctx.tier, ctx.shard, ctx.nshards), check_case, presliced=True)
    ctx.enumerate("attain", attain_cases(), check_case)
    ctx.enumerate("dimension", dimension_cases(), check_case)
    ctx.drive("points", cases(), check_case, ctx.budget(240000, 3000000), use_target=True)
    ctx.drive_fuzz("points", 160000)  # thorough tier: coverage-guided campaign over the same generator and oracle


FUZZ = {"points": (lambda tier: cases(), check_case)}
