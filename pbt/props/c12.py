"""C12 - SequOOL opens cells depth by depth within its harmonic budget."""
import copy
import math
from fractions import Fraction

from pbt import gen
from pbt.engine import Outcome, Violation
from pbt.harness import Unattributable, Session

PROP = "C12"
RULE = (
    "subcheck 'generated': SequOOL x n in 10..600 (thorough ..5000) x partition x K x d x box x reward laws with ties/negatives x "
    "T <= n, drawn by Hypothesis; subcheck 'all-n': every n in 10..1000 (thorough ..3000) on Binary and 3-ary partitions for the full "
    "budget (enumerated). Oracle, from the make_children calls recorded inside each pull and the harness ledger: h_max = floor(n/H_n) "
    "in exact Fraction arithmetic; the first opening is the root; openings are ordered by depth without skipping one; at most "
    "floor(h_max/h) openings at depth h and none beyond h_max; depth h+1 is entered only when depth h used its budget or has no "
    "unopened cell; each opened cell was evaluated, unopened, and has the maximal ledger reward among the unopened cells of its depth; "
    "after an opening the next K pulls return its children in child order, each once; no search cell is evaluated twice; pulls return "
    "the domain centre only once the schedule is exhausted, and get_last_point() no longer changes afterwards. non-trivial = >= 2 "
    "openings at some depth whose candidates had distinct rewards; runs reaching exhaustion are counted separately; distinct = SHA-1."
)
ASSUMPTIONS = [
    "n >= 10 (the property's quantifier)",
    "an 'opening' is observed as a make_children call on the recording partition subclass",
]


def ref_hmax(n):
    H = sum(Fraction(1, i) for i in range(1, n + 1))
    return int(Fraction(n) / H)  # floor for positive values


def lab(c):
    return "(%d,%d)" % (c.get_depth(), c.get_index())


def check_case(case):
    p = case["algo"]["params"]
    n = p["n"]
    classes = ["part:" + case["partition"]["cls"], "law:" + case["reward"].get("law", "noise")]
    hmax = ref_hmax(n)
    first_reward = {}
    evaluated = set()
    opened = set()
    by_depth = {}  # depth -> list of evaluated search cells
    opened_at = {}
    pending = []
    cur_depth = None
    exhausted = False
    lp_at_exhaustion = None
    rich = False
    try:
        with Session(case) as s:
            try:
                s.construct()
            except Exception as e:  # noqa: BLE001
                return Outcome(aborted="exception:" + type(e).__name__, classes=classes)
            part = s.main_partition()
            root = part.get_root()
            T = case["T"]
            for t in range(1, T + 1):
                nsp = len(s.split_log)
                try:
                    pt = s.pull()
                except Exception as e:  # noqa: BLE001
                    return Outcome(aborted="exception:" + type(e).__name__, classes=classes, rounds=t - 1)
                events = s.split_log[nsp:]
                cell = s.cell_of(pt)
                if cell is None:
                    raise Violation("point-identity", "the returned point is not the representative of a cell", t)
                if len(events) > 1:
                    raise Violation("one-opening", "%d cells opened in one pull" % len(events), t)
                if exhausted:
                    if events or cell is not root:
                        raise Violation("after-exhaustion", "after the schedule was exhausted pull %s" % ("opened a cell" if events else "returned " + lab(cell)), t)
                elif pending:
                    if events:
                        raise Violation("children-first", "opened %s while %d children of the previous opening were not yet evaluated" % (lab(events[0]["parent"]), len(pending)), t)
                    if cell is not pending[0]:
                        raise Violation("children-order", "expected child %s, got %s" % (lab(pending[0]), lab(cell)), t)
                    pending.pop(0)
                elif events:
                    P = events[0]["parent"]
                    h = P.get_depth()
                    if events[0]["prev_children"] is not None:
                        raise Violation("open-unopened", "opened %s which already had children" % lab(P), t)
                    if cur_depth is None:
                        if P is not root:
                            raise Violation("first-opening", "the first opening is %s, not the root" % lab(P), t)
                    else:
                        if id(P) in opened:
                            raise Violation("open-unopened", "%s opened twice" % lab(P), t)
                        if id(P) not in evaluated:
                            raise Violation("open-evaluated", "opened %s which was never evaluated" % lab(P), t)
                        if h > hmax:
                            raise Violation("depth-cap", "opened a cell of depth %d > h_max = %d" % (h, hmax), t)
                        if h < cur_depth or h > cur_depth + 1:
                            raise Violation("depth-order", "opening at depth %d after depth %d" % (h, cur_depth), t)
                        if h == cur_depth + 1 and cur_depth >= 1:
                            unopened_prev = [c for c in by_depth.get(cur_depth, []) if id(c) not in opened]
                            if opened_at.get(cur_depth, 0) < hmax // cur_depth and unopened_prev:
                                raise Violation("depth-advance", "moved to depth %d although depth %d used %d of %d openings and has %d unopened cells" % (
                                    h, cur_depth, opened_at.get(cur_depth, 0), hmax // cur_depth, len(unopened_prev)), t)
                        if opened_at.get(h, 0) + 1 > hmax // h:
                            raise Violation("depth-budget", "opening #%d at depth %d, budget floor(%d/%d) = %d" % (opened_at.get(h, 0) + 1, h, hmax, h, hmax // h), t)
                        cands = [c for c in by_depth.get(h, []) if id(c) not in opened]
                        best = max(first_reward[id(c)] for c in cands)
                        if not first_reward[id(P)] == best:
                            raise Violation("open-best", "opened %s of reward %r, best unopened reward at depth %d is %r" % (lab(P), first_reward[id(P)], h, best), t)
                        if opened_at.get(h, 0) >= 1 and len(set(first_reward[id(c)] for c in cands)) >= 2:
                            rich = True
                    opened.add(id(P))
                    opened_at[h] = opened_at.get(h, 0) + 1
                    cur_depth = h
                    kids = events[0]["children"]
                    if cell is not kids[0]:
                        raise Violation("children-order", "the opening pull returned %s, not the first child" % lab(cell), t)
                    pending = list(kids[1:])
                else:
                    # no opening, nothing pending: only legitimate once the schedule is exhausted
                    if cell is not root:
                        raise Violation("no-opening", "pull returned %s without opening a cell" % lab(cell), t)
                    ok = cur_depth is not None and cur_depth >= 1 and (cur_depth >= hmax or False)
                    if ok:
                        unopened = [c for c in by_depth.get(cur_depth, []) if id(c) not in opened]
                        ok = opened_at.get(cur_depth, 0) >= hmax // cur_depth or not unopened
                    if not ok:
                        raise Violation("early-exhaustion", "pull returned the domain centre although the schedule (depth %r of h_max %d, %r openings) is not exhausted" % (
                            cur_depth, hmax, opened_at.get(cur_depth)), t)
                    centre = [(lo + hi) / 2 for lo, hi in case["domain"]]
                    if list(pt) != centre:
                        raise Violation("centre", "post-schedule pull returned %r, domain centre is %r" % (pt, centre), t)
                    exhausted = True
                    try:
                        lp_at_exhaustion = list(s.algo.get_last_point())
                    except Exception as e:  # noqa: BLE001
                        return Outcome(aborted="last-point-exception:" + type(e).__name__, classes=classes, rounds=t - 1)
                if not exhausted or cell is not root:
                    if id(cell) in evaluated:
                        raise Violation("evaluate-once", "search cell %s evaluated twice" % lab(cell), t)
                r = s.reward_for(pt)
                try:
                    s.receive(r)
                except Exception as e:  # noqa: BLE001
                    return Outcome(aborted="exception:" + type(e).__name__, classes=classes, rounds=t - 1)
                if cell is not root:
                    evaluated.add(id(cell))
                    first_reward[id(cell)] = r
                    by_depth.setdefault(cell.get_depth(), []).append(cell)
            if exhausted:
                classes.append("reached-exhaustion")
                try:
                    lp = list(s.algo.get_last_point())
                except Exception as e:  # noqa: BLE001
                    return Outcome(aborted="last-point-exception:" + type(e).__name__, classes=classes, rounds=T)
                if lp != lp_at_exhaustion:
                    raise Violation("recommendation-stable", "get_last_point changed after exhaustion: %r -> %r" % (lp_at_exhaustion, lp), T)
            if rich:
                classes.append("opening-among-distinct-rewards")
            return Outcome(nontrivial=rich, classes=classes, rounds=T)
    except Unattributable:
        return Outcome(aborted="point-matches-several-cells", classes=classes)
    except Violation as v:
        return Outcome(violation=v.as_dict(), classes=classes, rounds=v.round or 0)


def all_n_cases(tier):
    nmax = 1000 if tier == "quick" else 3000
    out = []
    for n in range(10, nmax + 1):
        for ps in ({"cls": "BinaryPartition"}, {"cls": "KaryPartition", "K": 3}):
            out.append({"algo": {"name": "SequOOL", "params": {"n": n}}, "partition": ps, "domain": [[0.0, 1.0]],
                        "rng": {"mode": "seed", "seed": n}, "T": n,
                        "reward": {"law": ("noise", "ties", "peak")[n % 3], "seed": n}})
    return out


def simplify(case):
    T = case["T"]
    for t in (3, 5, 10, 20, T // 2, T - 1):
        if 1 <= t < T:
            c = copy.deepcopy(case)
            c["T"] = t
            yield c
    if len(case["domain"]) > 1:
        c = copy.deepcopy(case)
        c["domain"] = c["domain"][:1]
        yield c
    if case["partition"]["cls"] != "BinaryPartition":
        c = copy.deepcopy(case)
        c["partition"] = {"cls": "BinaryPartition"}
        yield c


def run_shard(ctx):
    quick = ctx.tier == "quick"
    cases = all_n_cases(ctx.tier)
    ctx.enumerate("all-n", cases, check_case,
                  exhaustive_note="SequOOL full-budget runs for every n in 10..%d on Binary and 3-ary partitions of [0,1] (%d runs)"
                  % (1000 if quick else 3000, len(cases)))
    ctx.drive("generated", gen.run_case(names=["SequOOL"], n_range=(10, 600) if quick else (10, 5000), script_prob=0.25,
                                        full_T_prob=0.6, T_min=5,
                                        laws=["ties", "nonpos_ties", "noise", "peak", "negative", "const", "large", "bump", "neartie", "neartie"]),
              check_case, ctx.budget(10000, 60000))
