"""C03 - the partition tree and its per-depth node index stay mutually consistent."""
import contextlib
import copy

from hypothesis import strategies as st
from hypothesis.stateful import RuleBasedStateMachine, initialize, invariant, precondition, rule

from pbt import gen
from pbt.engine import Outcome, _Found
from pbt.harness import KARY, PARTITIONS, Session, algo_label, leaves, rng_context
from pbt.treeinv import tree_consistent

PROP = "C03"
RULE = (
    "subcheck 'machine': a Hypothesis RuleBasedStateMachine over one partition (init: class, K in 2..5, d in 1..3, box, "
    "injected RNG outcomes; rules deepen() and expand(j) = make_children(leaf_j, newlayer = leaf_j.depth >= partition.depth)), "
    "the structural invariant (listed == reachable each once, layer h holds depth h, parent/child links both ways, no child "
    "list is a layer list, get_depth == deepest layer == len-1, labels unique, children carry K(i-1)+1..Ki in order) after "
    "every step; non-trivial = the history holds an expansion into an already existing layer (newlayer=False). subcheck "
    "'algos': the same invariant on every partition of generated runs of every algorithm (each learner of POO/GPO) after every "
    "round; non-trivial = >= 3 layers and >= 1 out-of-layer-order expansion. distinct = SHA-1 of the JSON history/case."
)
ASSUMPTIONS = [
    "only leaves are expanded directly and newlayer follows the callers' documented convention (the property's own quantifier)",
    "trees are capped at 3000 cells per history (deepen on 2^d-ary partitions)",
]
MAX_NODES = 3000


def _build(pspec, dom):
    base = PARTITIONS[pspec["cls"]]
    if pspec["cls"] in KARY:
        return base(domain=dom, K=pspec["K"])
    return base(domain=dom)


def _apply(part, pspec, op, d):
    """Apply one op; returns 'skip', 'deepen', 'new' or 'existing'."""
    nnodes = sum(len(l) for l in part.get_node_list())
    ar = pspec.get("K", 2 ** d if pspec["cls"] == "DimensionBinaryPartition" else 2)
    if op[0] == "deepen":
        if len(part.get_node_list()[part.get_depth()]) * ar + nnodes > MAX_NODES:
            return "skip"
        part.deepen()
        return "deepen"
    if op[0] == "chain":
        # expand the last cell of the deepest layer op[1] times: the only way to reach depths in the hundreds
        for _ in range(op[1]):
            if sum(len(l) for l in part.get_node_list()) + ar > MAX_NODES:
                return "skip"
            leaf = part.get_node_list()[part.get_depth()][-1]
            part.make_children(leaf, newlayer=True)
        return "new"
    if nnodes + ar > MAX_NODES:
        return "skip"
    lv = leaves(part.get_root())
    leaf = lv[op[1] % len(lv)]
    newlayer = leaf.get_depth() >= part.get_depth()
    part.make_children(leaf, newlayer=newlayer)
    return "new" if newlayer else "existing"


def check_history(case):
    pspec = case["partition"]
    dom = gen.materialise_domain(case)
    d = len(dom)
    classes = ["part:" + pspec["cls"], "d:%d" % d]
    kinds = []
    with rng_context(case["rng"]):
        part = _build(pspec, dom)
        r = tree_consistent(part)
        step = 0
        if not r:
            for op in case["ops"]:
                step += 1
                try:
                    kinds.append(_apply(part, pspec, op, d))
                except Exception as e:  # noqa: BLE001 - a crash is not a C03 verdict
                    return Outcome(aborted="exception:" + type(e).__name__, classes=classes, rounds=len(kinds))
                r = tree_consistent(part)
                if r:
                    break
    if r:
        return Outcome(violation={"clause": r[0], "msg": r[1], "round": step}, classes=classes)
    nt = "existing" in kinds
    if nt:
        classes.append("existing-layer-expansion")
    if "deepen" in kinds:
        classes.append("deepen")
    return Outcome(nontrivial=nt, classes=classes, rounds=len(kinds))


def check_algo(case):
    classes = ["algo:" + algo_label(case["algo"]), "part:" + case["partition"]["cls"]]
    with Session(case) as s:
        try:
            s.construct()
            rnd = 0
            for rec in s.recs:
                r = tree_consistent(rec.part)
                if r:
                    return Outcome(violation={"clause": r[0], "msg": "after construction: " + r[1], "round": 0}, classes=classes)
            for i in range(case["T"]):
                s.step()
                rnd = i + 1
                for rec in s.recs:
                    r = tree_consistent(rec.part)
                    if r:
                        return Outcome(violation={"clause": r[0], "msg": r[1], "round": rnd}, classes=classes, rounds=rnd)
        except Exception as e:  # noqa: BLE001 - totality belongs to C01
            return Outcome(aborted="exception:" + type(e).__name__, classes=classes)
        # the recommendation call is part of a run (VROOM expands cells in it): the tree must survive it as well
        try:
            s.last_point()
            queried = True
        except Exception:  # noqa: BLE001 - e.g. open finding D11
            queried = False
        if queried:
            for rec in s.recs:
                r = tree_consistent(rec.part)
                if r:
                    return Outcome(violation={"clause": r[0], "msg": "after get_last_point(): " + r[1], "round": case["T"] + 1}, classes=classes, rounds=case["T"])
        ooo = any(not ev["newlayer"] for ev in s.split_log)
        deep = max((len(rec.part.get_node_list()) for rec in s.recs), default=0)
        if ooo:
            classes.append("out-of-order-expansion")
        return Outcome(nontrivial=ooo and deep >= 3, classes=classes, rounds=case["T"])


def check_case(case):
    return check_history(case) if "ops" in case else check_algo(case)


def simplify(case):
    if "ops" in case:
        for i in range(len(case["ops"])):
            c = copy.deepcopy(case)
            del c["ops"][i]
            yield c
        if len(case["domain"]) > 1:
            c = copy.deepcopy(case)
            c["domain"] = c["domain"][:1]
            yield c
        if case["domain"] != [[0, 1]] * len(case["domain"]):
            c = copy.deepcopy(case)
            c["domain"] = [[0, 1] for _ in case["domain"]]
            yield c
        if case["rng"].get("mode") == "script":
            c = copy.deepcopy(case)
            c["rng"] = {"mode": "seed", "seed": 0}
            yield c
    else:
        T = case["T"]
        for t in (1, 5, 10, T // 2, T - 1):
            if 1 <= t < T:
                c = copy.deepcopy(case)
                c["T"] = t
                yield c
        if case["reward"].get("law") != "const":
            c = copy.deepcopy(case)
            c["reward"] = {"law": "noise", "seed": 0}
            yield c
        if len(case["domain"]) > 1:
            c = copy.deepcopy(case)
            c["domain"] = c["domain"][:1]
            yield c


def make_machine(col, sub):
    class PartitionMachine(RuleBasedStateMachine):
        def __init__(self):
            super().__init__()
            self.part = None
            self.case = None
            self.stack = contextlib.ExitStack()
            self.kinds = []
            self.viol = None
            self.dead = None

        @initialize(dom=gen.domains(max_d=3), pspec=gen.partitions(max_K=5), rng=gen.rngs(script_prob=0.6, max_len=30))
        def init(self, dom, pspec, rng):
            self.case = {"partition": pspec, "domain": dom, "rng": rng, "ops": []}
            self.stack.enter_context(rng_context(rng))
            self.part = _build(pspec, copy.deepcopy(dom))

        def _do(self, op):
            if self.dead:
                return
            self.case["ops"].append(op)
            try:
                self.kinds.append(_apply(self.part, self.case["partition"], op, len(self.case["domain"])))
            except Exception as e:  # noqa: BLE001 - a crash is C01's business, not a C03 verdict
                self.dead = "exception:" + type(e).__name__

        @precondition(lambda self: self.part is not None)
        @rule()
        def deepen(self):
            self._do(["deepen"])

        @precondition(lambda self: self.part is not None)
        @rule(j=st.integers(0, 300))
        def expand(self, j):
            self._do(["expand", j])

        @invariant()
        def consistent(self):
            if self.part is None or self.dead:
                return
            r = tree_consistent(self.part)
            if r:
                self.viol = {"clause": r[0], "msg": r[1], "round": len(self.case["ops"])}
                raise _Found()

        def teardown(self):
            self.stack.close()
            if self.case is None:
                return
            pspec = self.case["partition"]
            classes = ["part:" + pspec["cls"], "d:%d" % len(self.case["domain"])]
            nt = "existing" in self.kinds
            if nt:
                classes.append("existing-layer-expansion")
            if "deepen" in self.kinds:
                classes.append("deepen")
            col.add(sub, copy.deepcopy(self.case),
                    Outcome(violation=self.viol, nontrivial=nt and not self.dead, classes=classes,
                            rounds=len(self.kinds), aborted=self.dead))

    return PartitionMachine


def deep_cases():
    """Depths in the hundreds (long chains), then the ordinary operations: bookkeeping that only
    breaks beyond some depth (a cached small integer, a recursion limit, a fixed-size table)."""
    out = []
    for cls, K in (("BinaryPartition", None), ("RandomBinaryPartition", None), ("KaryPartition", 3), ("RandomKaryPartition", 4),
                   ("DimensionBinaryPartition", None)):
        for m in (10, 100, 255, 256, 257, 300, 520):
            ps = {"cls": cls}
            if K:
                ps["K"] = K
            for tail in ([["deepen"]], [["expand", 3], ["deepen"], ["expand", 1]], [["deepen"], ["deepen"]]):
                out.append({"partition": ps, "domain": [[0.0, 1.0]] if cls != "DimensionBinaryPartition" else [[0.0, 1.0], [2.0, 3.0]],
                            "rng": {"mode": "seed", "seed": m}, "ops": [["chain", 10]] * (m // 10) + [["chain", m % 10]] + tail})
    return out


def run_shard(ctx):
    ctx.enumerate("deep", deep_cases(), check_case)
    ctx.drive_machine("machine", make_machine(ctx.col, "machine"), ctx.budget(8000, 60000), steps=25 if ctx.tier == "quick" else 50)
    quick = ctx.tier == "quick"
    ctx.drive("algos", gen.run_case(T_max=200 if quick else 600, n_range=(100, 700) if quick else (100, 2500),
                                    poo_ok_only=True, gpo_ok_only=True, script_prob=0.3),
              check_case, ctx.budget(3200, 24000))
