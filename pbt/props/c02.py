"""C02 - child cells exactly tile their parent cell in every partition."""
import copy

from hypothesis import strategies as st

from pbt import engine, gen, tiling
from pbt.engine import Outcome
from pbt.harness import KARY, PARTITIONS, RngScript, Session, algo_label, leaves, rng_context

PROP = "C02"
RULE = (
    "subcheck 'direct': partition class x K in 2..33 x d in 1..4 x box x an expansion order (deepen / expand leaf #j with the "
    "callers' newlayer convention) x injected split dimensions and split fractions (end-point draws included), every "
    "make_children judged by the exact predicate (arity, containment, grid tiling = union is the parent and interiors "
    "disjoint hence bit-identical shared faces, only split dimensions change, equal sides to 8 ulp for the equal-size "
    "classes, centre = midpoint to 1 ulp) and the final leaves judged against the root box. subcheck 'algos': the same "
    "predicate on every split made during generated runs of all algorithms. In dimension >= 2 one box in five/six is written "
    "[[lo, hi]] * d, i.e. ONE list object for every axis. subcheck 'ndarray' (differential): the tree grown from the box handed "
    "over as a 2-D float NumPy array / a list of 1-D arrays has, cell for cell, the boxes and centres of the tree grown from the "
    "same box as a list of lists (an exception on the array-typed box is inconclusive). Thorough tier: subcheck 'fuzz-direct', an "
    "atheris/libFuzzer campaign over the 'direct' generator and oracle. non-trivial = at least one split and (d >= 2 "
    "or a non-unit box or an end-point draw or an out-of-layer-order expansion); distinct = SHA-1 of the JSON case."
)
ASSUMPTIONS = [
    "boxes are finite with lo < hi and |x| <= 1e100 (midpoints near the float maximum overflow; excluded, DESIGN 3.2)",
    "'arbitrary real bounds' is explored on IEEE doubles; the oracle is exact (Fraction arithmetic) on each instance",
    "equal-size tolerance is 8 ulp of the parent's coordinate magnitude (np.linspace rounds each boundary)",
]
MAX_NODES = 3000


@st.composite
def direct_cases(draw, tier):
    maxd = 4
    dom, alias = draw(gen.aliased(draw(gen.domains(max_d=maxd, extreme=True, bigint=True)), prob_den=5))
    d = len(dom)
    cls = draw(st.sampled_from(sorted(PARTITIONS)))
    pspec = {"cls": cls}
    if cls in KARY:
        pspec["K"] = draw(st.one_of(st.integers(2, 6), st.integers(7, 33)))  # "all arities K >= 2"
    nops = draw(st.integers(1, 12 if tier == "quick" else 30))
    ops = []
    for _ in range(nops):
        if draw(st.integers(0, 3)) == 0:
            ops.append(["deepen"])
        else:
            ops.append(["expand", draw(st.integers(0, 200))])
    rng = draw(gen.rngs(script_prob=0.85, max_len=60))
    probes = [[draw(st.floats(0, 1)) for _ in range(d)] for _ in range(6)]
    case = {"partition": pspec, "domain": dom, "ops": ops, "rng": rng, "probes": probes}
    if alias:
        case["alias_axes"] = True  # the box written as [[lo, hi]] * d: one list object for every axis
    return case


def _bind(pspec, on_split):
    base = PARTITIONS[pspec["cls"]]
    K = pspec.get("K")

    class Obs(base):
        def __init__(self, domain):
            if pspec["cls"] in KARY:
                base.__init__(self, domain=domain, K=K)
            else:
                base.__init__(self, domain=domain)

        def make_children(self, parent, newlayer=False):
            base.make_children(self, parent, newlayer)
            on_split(parent, list(parent.get_children()))

    return Obs


def check_direct(case):
    pspec = case["partition"]
    dom = gen.materialise_domain(case)
    d = len(dom)
    nsplit = [0]
    bad = []

    def on_split(parent, children):
        nsplit[0] += 1
        if not bad:
            r = tiling.split_ok(pspec["cls"], pspec.get("K"), parent, children)
            if r:
                bad.append(r)

    classes = ["part:" + pspec["cls"], "d:%d" % d, "rng:" + case["rng"]["mode"]]
    if case.get("alias_axes"):
        classes.append("aliased-axes")
    out_of_order = False
    with rng_context(case["rng"]) as script:
        part = _bind(pspec, on_split)(dom)
        msg = tiling.centre_ok(part.get_root())
        if msg:
            return Outcome(violation={"clause": "centre", "msg": "root: " + msg, "round": 0}, classes=classes)
        step = 0
        for op in case["ops"]:
            step += 1
            nnodes = sum(len(l) for l in part.get_node_list())
            ar = pspec.get("K", 2 ** d if pspec["cls"] == "DimensionBinaryPartition" else 2)
            try:
                if op[0] == "deepen":
                    if len(part.get_node_list()[part.get_depth()]) * ar + nnodes > MAX_NODES:
                        continue
                    part.deepen()
                else:
                    if nnodes + ar > MAX_NODES:
                        continue
                    lv = leaves(part.get_root())
                    leaf = lv[op[1] % len(lv)]
                    newlayer = leaf.get_depth() >= part.get_depth()
                    if not newlayer:
                        out_of_order = True
                    part.make_children(leaf, newlayer=newlayer)
            except Exception as e:  # noqa: BLE001 - a split of a valid cell that raises yields no tiling at all
                return Outcome(violation={"clause": "split-raises", "msg": "%s: %s" % (type(e).__name__, str(e)[:200]), "round": step},
                               classes=classes)
            if bad:
                clause, msg = bad[0]
                return Outcome(violation={"clause": clause, "msg": msg, "round": step}, classes=classes)
        endpoint = bool(script and script.used_endpoint)
    lv = leaves(part.get_root())
    msg, how = tiling.leaves_tile(case["domain"], [l.get_domain() for l in lv], case.get("probes", []))
    classes.append("leaves:" + how)
    if msg:
        return Outcome(violation={"clause": "leaves-tile-root", "msg": msg, "round": step}, classes=classes)
    if endpoint:
        classes.append("endpoint-draw")
    if out_of_order:
        classes.append("out-of-order")
    nonunit = any(list(iv) not in ([0, 1], [0.0, 1.0]) for iv in case["domain"])
    nt = nsplit[0] >= 1 and (d >= 2 or nonunit or endpoint or out_of_order)
    return Outcome(nontrivial=nt, classes=classes, rounds=nsplit[0])


# ------------------------------------------------------------------ container independence


@st.composite
def ndarray_cases(draw, tier):
    """A `direct` case whose box is handed to the partition as a NumPy array instead of the documented list of
    lists: a 2-D float array, or a list of 1-D float arrays ("rows")."""
    c = draw(direct_cases(tier))
    c.pop("alias_axes", None)
    c["ndarray"] = draw(st.sampled_from(["2d", "rows"]))
    return c


def _grow(case, dom):
    """Apply the case's expansion order to a partition built on ``dom``; returns every cell's box as floats."""
    pspec = case["partition"]
    d = len(case["domain"])
    with rng_context(case["rng"]):
        part = _bind(pspec, lambda parent, children: None)(dom)
        for op in case["ops"]:
            nnodes = sum(len(l) for l in part.get_node_list())
            ar = pspec.get("K", 2 ** d if pspec["cls"] == "DimensionBinaryPartition" else 2)
            if op[0] == "deepen":
                if len(part.get_node_list()[part.get_depth()]) * ar + nnodes > 600:
                    continue
                part.deepen()
            else:
                if nnodes + ar > 600:
                    continue
                lv = leaves(part.get_root())
                leaf = lv[op[1] % len(lv)]
                part.make_children(leaf, newlayer=leaf.get_depth() >= part.get_depth())
        boxes = []
        for layer in part.get_node_list():
            for node in layer:
                boxes.append([[float(a), float(b)] for a, b in node.get_domain()] + [[float(v) for v in node.get_cpoint()]])
    return boxes


def check_ndarray(case):
    """Differential oracle: the tree grown from an array-typed box has, cell for cell, the boxes and centres of
    the tree grown from the same box written as a list of lists (which the `direct` sub-check judges against the
    tiling predicate). The unchanged library treats both containers alike. An exception on the array-typed box
    is inconclusive - the documented container is the list of lists - never a violation."""
    import numpy as np

    classes = ["part:" + case["partition"]["cls"], "ndarray:" + case["ndarray"], "d:%d" % len(case["domain"])]
    if any(float(b) != b or (b != 0 and abs(b) < 1e-300) for ax in case["domain"] for b in ax):
        return Outcome(classes=classes + ["ndarray:skipped-nonrepresentable"])
    try:
        ref = _grow(case, copy.deepcopy(case["domain"]))
    except Exception as e:  # noqa: BLE001 - judged by the `direct` sub-check
        return Outcome(aborted="exception:" + type(e).__name__, classes=classes)
    if case["ndarray"] == "2d":
        dom = np.array(case["domain"], dtype=float)
    else:
        dom = [np.array(ax, dtype=float) for ax in case["domain"]]
    try:
        got = _grow(case, dom)
    except Exception as e:  # noqa: BLE001
        return Outcome(aborted="ndarray-rejected:" + type(e).__name__, classes=classes)
    if got != ref:
        k = next((i for i, (a, b) in enumerate(zip(ref, got)) if a != b), min(len(ref), len(got)))
        return Outcome(violation={"clause": "container-dependence", "round": k,
                                  "msg": "cell #%d of the tree grown from the %s-typed box is %r, from the list of lists %r" % (
                                      k, case["ndarray"], got[k][:-1] if k < len(got) else None, ref[k][:-1] if k < len(ref) else None)},
                       classes=classes)
    return Outcome(nontrivial=len(ref) > 1, classes=classes, rounds=len(ref))


def check_algo(case):
    """The same predicate on every split of an algorithm run."""
    pspec = case["partition"]
    classes = ["algo:" + algo_label(case["algo"]), "part:" + pspec["cls"]]
    with Session(case) as s:
        try:
            s.construct()
            for _ in range(case["T"]):
                s.step()
        except Exception as e:  # noqa: BLE001 - totality belongs to C01
            return Outcome(aborted="exception:" + type(e).__name__, classes=classes)
        for ev in s.split_log:
            r = tiling.split_ok(pspec["cls"], pspec.get("K"), ev["parent"], ev["children"])
            if r:
                return Outcome(violation={"clause": r[0], "msg": r[1], "round": ev["round"]}, classes=classes)
        for rec in s.recs[:4]:
            lv = leaves(rec.part.get_root())
            msg, how = tiling.leaves_tile(case["domain"], [l.get_domain() for l in lv], [[0.5], [0.25], [0.7]])
            if msg:
                return Outcome(violation={"clause": "leaves-tile-root", "msg": msg, "round": case["T"]}, classes=classes)
        return Outcome(nontrivial=len(s.split_log) >= 2, classes=classes, rounds=len(s.split_log))


def nonrepresentable_int_bound(case):
    """Guard of the open finding D12: some bound is a Python int that no double represents exactly."""
    for iv in case["domain"]:
        for b in iv:
            if isinstance(b, int) and not isinstance(b, bool):
                try:
                    if int(float(b)) != b:
                        return True
                except OverflowError:
                    return True
    return False


def kary_underflow_box(case):
    """Guard of the open finding D13: KaryPartition on a box with a side inside the gradual-underflow range."""
    if case["partition"]["cls"] != "KaryPartition":
        return False
    lim = 2.0 ** -1000
    return any(abs(float(iv[0])) < lim and abs(float(iv[1])) < lim and float(iv[0]) != float(iv[1]) for iv in case["domain"])


D12_CLAUSES = ("containment", "tiling", "centre", "leaves-tile-root", "child-box", "equal-size")


def check_case(case):
    if "ndarray" in case:
        return check_ndarray(case)
    out = check_direct(case) if "ops" in case else check_algo(case)
    if out.violation and out.violation["clause"] in D12_CLAUSES and nonrepresentable_int_bound(case):
        if any(f["id"] == "D12" and f.get("status") == "open" for f in engine.load_known()):
            out.known = "D12"
            out.classes.append("known:D12")
    elif out.violation and out.violation["clause"] in D12_CLAUSES and kary_underflow_box(case):
        if any(f["id"] == "D13" and f.get("status") == "open" for f in engine.load_known()):
            out.known = "D13"
            out.classes.append("known:D13")
    elif nonrepresentable_int_bound(case):
        out.classes.append("bigint-bound-held")
    return out


def simplify(case):
    if "ops" in case:
        ops = case["ops"]
        for i in range(len(ops)):
            c = copy.deepcopy(case)
            del c["ops"][i]
            yield c
        if len(case["domain"]) > 1:
            c = copy.deepcopy(case)
            c["domain"] = c["domain"][:1]
            yield c
        if case["rng"].get("mode") == "script":
            for key in ("fracs", "ints"):
                if case["rng"].get(key):
                    c = copy.deepcopy(case)
                    c["rng"][key] = c["rng"][key][:-1]
                    yield c
    else:
        T = case["T"]
        for t in (1, 5, T // 2):
            if 1 <= t < T:
                c = copy.deepcopy(case)
                c["T"] = t
                yield c


def run_shard(ctx):
    ctx.drive("direct", direct_cases(ctx.tier), check_case, ctx.budget(24000, 200000))
    ctx.drive("ndarray", ndarray_cases(ctx.tier), check_case, ctx.budget(3200, 30000))
    ctx.drive_fuzz("direct", 48000)  # thorough tier: coverage-guided campaign over the same generator and oracle
    names = ["T_HOO", "HCT", "VHCT", "DOO", "SOO", "StoSOO", "SequOOL", "StroquOOL", "Zooming", "VROOM", "PCT"]
    ctx.drive("algos", gen.run_case(names=names, T_max=120, extreme=True, poo_ok_only=True, gpo_ok_only=True,
                                    binary_children_only=False),
              check_case, ctx.budget(2400, 30000))


FUZZ = {"direct": (direct_cases, check_case)}
