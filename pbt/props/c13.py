"""C13 - VROOM samples cells from the rank-based distribution and points inside the cell."""
import copy
import math

import numpy as np

from pbt import gen
from pbt.engine import Outcome, Violation
from pbt.harness import Session, in_box

PROP = "C13"
RULE = (
    "cases = VROOM x binary-child partitions (Binary, RandomBinary, DimensionBinary d=1, Kary/RandomKary K=2) x d x box x n x h_max "
    "below/equal/above floor(log2 n) x (b, f_max) x reward law x T, drawn by Hypothesis; np.random.choice is wrapped for the duration "
    "of the run so that the probability vector actually used and the index actually drawn are seen. Oracle per pull: for each depth "
    "1..floor(log2 n) the latest ranks are a permutation of 1..2^h; rank(a) < rank(b) implies LCB(a) >= LCB(b) with LCB = mean - "
    "sqrt(ln(4 n^3/delta)/(2T)) from the ledger (-inf if unevaluated, ties to 1e-12); the vector handed to np.random.choice equals "
    "1/(h rank C), C = sum_h sum_{r<=2^h} 1/(h r), and sums to 1; the drawn cell is the one at the drawn index; the returned point was "
    "sampled from the drawn cell or its descendant at depth max(h, h_max) and lies in the drawn cell's closed box; the reward is "
    "credited exactly to that chain. non-trivial = >= 20 rounds and some depth with >= 2 evaluated cells of distinct LCB; distinct = SHA-1."
)
ASSUMPTIONS = [
    "binary-child partitions only (other arities: open finding D10 of C01)",
    "the sampling LAW is checked through the probability vector handed to np.random.choice, not by a statistical test",
]


def check_case(case):
    p = case["algo"]["params"]
    n, b, fmax = p["n"], p["b"], p["f_max"]
    hcap = min(p["h_max"], n)
    classes = ["part:" + case["partition"]["cls"], "law:" + case["reward"].get("law", "noise"),
               "hmax-vs-sd:" + ("below" if p["h_max"] < int(math.floor(math.log2(n))) else ("equal" if p["h_max"] == int(math.floor(math.log2(n))) else "above"))]
    sd = int(math.floor(math.log2(n)))
    delta = 4 * b / (fmax * math.sqrt(n))
    C = math.fsum(1.0 / (h * r) for h in range(1, sd + 1) for r in range(1, 2 ** h + 1))
    led = {}
    rich = False
    calls = []
    orig_choice = np.random.choice

    def spy(a, size=None, replace=True, p=None):
        r = orig_choice(a, size=size, replace=replace, p=p)
        calls.append((list(a), None if p is None else [float(x) for x in p], r))
        return r

    def lcb(c):
        l = led.get(id(c), [])
        if not l:
            return -math.inf
        return math.fsum(float(x) for x in l) / len(l) - math.sqrt(math.log(4 * n ** 3 / delta) / (2 * len(l)))

    try:
        with Session(case) as s:
            np.random.choice = spy
            try:
                try:
                    s.construct()
                except Exception as e:  # noqa: BLE001
                    return Outcome(aborted="exception:" + type(e).__name__, classes=classes)
                part = s.main_partition()
                T = case["T"]
                for t in range(1, T + 1):
                    ncalls = len(calls)
                    before = {id(c): len(c.reward) for rec in s.recs for c in rec.nodes}
                    try:
                        pt = s.pull()
                    except Exception as e:  # noqa: BLE001
                        return Outcome(aborted="exception:" + type(e).__name__, classes=classes, rounds=t - 1)
                    nl = part.get_node_list()
                    flat = []
                    if len(nl) <= sd:
                        raise Violation("layer-size", "the ranking depths 1..floor(log2 n) = %d are not all built (partition has %d layers)" % (sd, len(nl) - 1), t)
                    for h in range(1, sd + 1):
                        layer = nl[h]
                        if len(layer) != 2 ** h:
                            raise Violation("layer-size", "depth %d holds %d cells, expected 2^h" % (h, len(layer)), t)
                        if any(not c.get_rank() for c in layer):
                            raise Violation("rank-permutation", "a cell of depth %d has no rank at the time of the draw" % h, t)
                        ranks = [c.get_rank()[-1] for c in layer]
                        if sorted(ranks) != list(range(1, 2 ** h + 1)):
                            raise Violation("rank-permutation", "ranks at depth %d are not a permutation of 1..%d: %r" % (h, 2 ** h, sorted(ranks)[:10]), t)
                        order = sorted(layer, key=lambda c: c.get_rank()[-1])
                        vals = [lcb(c) for c in order]
                        for i in range(len(vals) - 1):
                            x, y = vals[i], vals[i + 1]
                            if not (x >= y or (math.isfinite(x) and math.isfinite(y) and y - x <= 1e-12 * max(1.0, abs(x), abs(y)))):
                                raise Violation("rank-order", "depth %d: rank %d has LCB %r < rank %d's LCB %r" % (h, i + 1, x, i + 2, y), t)
                        if len(set(v for v in vals if math.isfinite(v))) >= 2:
                            rich = True
                        for c in layer:
                            flat.append((h, c))
                    mine = calls[ncalls:]
                    if len(mine) != 1:
                        raise Violation("one-draw", "%d calls of np.random.choice in one pull" % len(mine), t)
                    a, pv, res = mine[0]
                    if pv is None or len(pv) != len(flat) or a != list(range(len(flat))):
                        raise Violation("prob-vector", "np.random.choice was called over %d items with %s probabilities, the ranking depths hold %d cells" % (
                            len(a), "no" if pv is None else len(pv), len(flat)), t)
                    if abs(math.fsum(pv) - 1.0) > 1e-9:
                        raise Violation("prob-sum", "probabilities sum to %r" % math.fsum(pv), t)
                    for i, (h, c) in enumerate(flat):
                        want = 1.0 / (h * c.get_rank()[-1] * C)
                        if abs(pv[i] - want) > 1e-12 * want + 1e-15:
                            raise Violation("prob-weight", "cell (%d,%d) of rank %d was given probability %r, expected 1/(h r C) = %r" % (
                                c.get_depth(), c.get_index(), c.get_rank()[-1], pv[i], want), t)
                    hd, drawn = flat[int(res)]
                    node = s.sampled.get(id(pt))
                    if node is None:
                        raise Violation("sample-source", "the returned point was not produced by sampling a cell", t)
                    chain = [node]
                    while chain[-1] is not drawn:
                        par = chain[-1].get_parent()
                        if par is None:
                            raise Violation("sample-source", "the point was sampled from (%d,%d), not a descendant of the drawn cell (%d,%d)" % (
                                node.get_depth(), node.get_index(), drawn.get_depth(), drawn.get_index()), t)
                        chain.append(par)
                    if node.get_depth() != max(hd, hcap):
                        raise Violation("sample-depth", "drawn depth %d, depth cap %d: sampled at depth %d" % (hd, hcap, node.get_depth()), t)
                    if not in_box(pt, drawn.get_domain()) or not in_box(pt, node.get_domain()):
                        raise Violation("point-in-cell", "point %r outside the drawn cell %r" % (pt, drawn.get_domain()), t)
                    r = s.reward_for(pt)
                    try:
                        s.receive(r)
                    except Exception as e:  # noqa: BLE001
                        return Outcome(aborted="exception:" + type(e).__name__, classes=classes, rounds=t - 1)
                    grew = set(id(c) for rec in s.recs for c in rec.nodes if len(c.reward) != before.get(id(c), 0))
                    if grew != set(id(c) for c in chain):
                        raise Violation("credit-chain", "the reward was credited to %d cells, the chain drawn..sampled has %d" % (len(grew), len(chain)), t)
                    for c in chain:
                        if len(c.reward) != before.get(id(c), 0) + 1 or not (c.reward[-1] == r):
                            raise Violation("credit-chain", "cell (%d,%d) was not credited exactly once with %r" % (c.get_depth(), c.get_index(), r), t)
                        led.setdefault(id(c), []).append(r)
            finally:
                np.random.choice = orig_choice
            if rich:
                classes.append("distinct-LCB-at-a-depth")
            return Outcome(nontrivial=rich and case["T"] >= 20, classes=classes, rounds=case["T"])
    except Violation as v:
        return Outcome(violation=v.as_dict(), classes=classes, rounds=v.round or 0)


def simplify(case):
    T = case["T"]
    for t in (1, 2, 5, 10, 20, T // 2, T - 1):
        if 1 <= t < T:
            c = copy.deepcopy(case)
            c["T"] = t
            yield c
    if len(case["domain"]) > 1 and case["partition"]["cls"] != "DimensionBinaryPartition":
        c = copy.deepcopy(case)
        c["domain"] = c["domain"][:1]
        yield c
    if case["partition"]["cls"] != "BinaryPartition":
        c = copy.deepcopy(case)
        c["partition"] = {"cls": "BinaryPartition"}
        yield c


def long_path_cases():
    """Depth caps in the thousands: every pull descends (and credits) a path of > 1075 cells, the length at which
    2**-i underflows to 0."""
    out = []
    for n, hm, seed in ((1300, 1300, 13), (1200, 5000, 5)):
        out.append({"algo": {"name": "VROOM", "params": {"n": n, "h_max": hm, "b": 1.0, "f_max": 1.0}}, "partition": {"cls": "BinaryPartition"},
                    "domain": [[0.0, 1.0]], "rng": {"mode": "seed", "seed": seed}, "T": 3, "reward": {"law": "noise", "seed": seed, "npfloat": True}})
    return out


def run_shard(ctx):
    ctx.enumerate("long-path", long_path_cases(), check_case)
    quick = ctx.tier == "quick"
    ctx.drive("vroom", gen.run_case(names=["VROOM"], binary_children_only=True, extreme=True, n_range=(16, 300) if quick else (16, 1200),
                                    script_prob=0.25, full_T_prob=0.4, T_min=3,
                                    laws=["noise", "peak", "bump", "ties", "negative", "large", "const", "peakpos"]),
              check_case, ctx.budget(1600, 16000))
