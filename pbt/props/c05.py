"""C05 - T-HOO, HCT and VHCT pull the cell chosen by the published optimistic index."""
from pbt import gen, hoofam
from pbt.hoofam import simplify  # noqa: F401

PROP = "C05"
RULE = (
    "cases = {T_HOO, HCT, VHCT} x partition x K x d x box x (nu, rho, c, delta, bound, rounds) in the documented ranges with "
    "delta up to 0.99 (rounds in which a delta~ cap of the code can still be active are not judged) x reward laws (peak/bump + noise dominate: evolving, untied B-values) x T. After every round, from "
    "the ledger only: (a) U rule - unvisited cells have U = inf, otherwise U == mean + nu rho^h + published width for an admissible "
    "t+ (T-HOO: sqrt(2 ln n / T); HCT/VHCT: t+ of a round since the later of the cell's last pull and the last power of two), rel "
    "1e-9; (b) B rule on every non-root cell, exact: leaf B == U, internal B == min(U, max children B); (c) path rule for every "
    "pull: each step goes to a child of maximal B among its siblings, T-HOO stops at a leaf, HCT/VHCT at the first cell that is a "
    "leaf or has fewer pulls than tau (reference tau, ceil arguments within 1e-9 accept both sides); (d) the U-value of a cell that was not "
    "pulled does not move in a round that is not a power of two. Subcheck 'long': 8 runs of 16500 (thorough 33000) rounds with the "
    "all-cells rules evaluated around powers of two. non-trivial = >= 10 rounds, "
    ">= 2 descent steps whose siblings had distinct finite B-values, and (HCT/VHCT) >= 1 refresh round; distinct = SHA-1 of the case."
)
ASSUMPTIONS = [
    "the code caps delta~ at 1/2 in the thresholds and at 1 in the U-values; rounds (and stored values) whose t+ is below 2 c1 delta are not judged",
    "the root's B-value is exempt (never read by any decision)",
    "the lazy schedule of the published algorithm makes several t+ admissible for a cell; any of them is accepted",
]


def check_case(case):
    return hoofam.run(case, "C05")


LAWS = ["peak", "peakpos", "bump", "peak", "bump", "noise", "ties", "negative", "large", "const", "twolevel"]


def long_cases(tier):
    """Runs past 2^14 rounds (behaviour that only changes at large round counts: a tolerance in the power-of-two
    test, a table that runs out); the all-cells rules are evaluated around powers of two and every 250th round."""
    out = []
    T = 16500 if tier == "quick" else 33000
    for name, extra in (("HCT", {}), ("VHCT", {"bound": 1.0})):
        for ps, dom in (({"cls": "BinaryPartition"}, [[0.0, 1.0]]), ({"cls": "KaryPartition", "K": 3}, [[-1.0, 2.0]]),
                        ({"cls": "DimensionBinaryPartition"}, [[0.0, 1.0], [0.0, 2.0]]), ({"cls": "RandomBinaryPartition"}, [[0.0, 1.0]])):
            p = {"nu": 1.0, "rho": 0.5, "c": 0.3, "delta": 0.01}
            p.update(extra)
            out.append({"algo": {"name": name, "params": p, "n": T}, "partition": ps, "domain": dom, "rng": {"mode": "seed", "seed": 5},
                        "T": T, "reward": {"law": "peak", "seed": 7, "params": {"star": [0.3, 0.6], "sigma": 0.3}}, "sparse": True})
    return out


def run_shard(ctx):
    ctx.enumerate("long", long_cases(ctx.tier), check_case)
    quick = ctx.tier == "quick"
    ctx.drive("index", gen.run_case(names=["T_HOO", "HCT", "VHCT"], laws=LAWS, hct_caps_inactive=True,
                                    T_max=300 if quick else 1000, n_range=(100, 300) if quick else (100, 1000),
                                    script_prob=0.25, T_min=5, full_T_prob=0.2),
              check_case, ctx.budget(6000, 40000))
