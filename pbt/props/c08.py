"""C08 - SOO, StoSOO and DOO evaluate and expand cells by their optimistic rule."""
import copy
import math

from pbt import gen
from pbt.engine import Outcome, Violation
from pbt.harness import Unattributable, Session, iter_tree, user_delta

PROP = "C08"
RULE = (
    "cases = {SOO, StoSOO, DOO} x partition x K x d x box x (n, h_max, k, delta; DOO default and user delta(h)) x reward laws rich in "
    "ties and negatives x T <= n. Per pull, from the expansions recorded inside that call and the harness ledger: each cell is "
    "evaluated at most once (SOO, DOO) / k times (StoSOO); an expanded cell was a leaf and had been evaluated (StoSOO: exactly k "
    "times); the cell handed out has depth <= h_max (SOO, StoSOO); when a leaf of depth h is expanded no unevaluated leaf of depth <= h "
    "exists; the expanded leaf is best of its depth (SOO: maximal reward among evaluated leaves of depth h and >= every shallower leaf "
    "expanded earlier in the same sweep; StoSOO: maximal b = mean + sqrt(ln(nk/delta)/(2T)) from the ledger, likewise monotone; DOO: "
    "maximal reward + delta(depth) over all leaves, exactly one expansion per expanding call); the cell handed out is an unevaluated "
    "leaf, the first in top-down (layer, list) order (SOO, DOO), or a max-b leaf of its depth evaluated < k times (StoSOO). "
    "non-trivial = a call with an expansion at a depth holding >= 2 evaluated leaves of different value; distinct = SHA-1 of the case."
)
ASSUMPTIONS = [
    "depth caps hold the budget (DESIGN 2.2); T <= n",
    "DOO's default delta(h) is re-derived as the largest squared half-width (first coordinate) over the cells of depth h",
    "b-values and reward+delta compared with tolerance 1e-12 relative",
]


def ge(a, b):
    """a >= b up to rounding."""
    if a >= b:
        return True
    if math.isinf(a) or math.isinf(b):
        return False
    return (b - a) <= 1e-12 * max(1.0, abs(a), abs(b))


def lab(n):
    return "(%d,%d)" % (n.get_depth(), n.get_index())


def check_case(case):
    a = case["algo"]
    name, p = a["name"], a["params"]
    classes = ["algo:" + name, "part:" + case["partition"]["cls"], "law:" + case["reward"].get("law", "noise")]
    led = {}
    nontrivial = False
    n = p["n"]
    if name == "StoSOO":
        k = p.get("k")
        if k is None:
            k = math.ceil(n / math.log(n) ** 3)
        delta = p.get("delta")
        if delta is None:
            delta = 1 / math.sqrt(n)

    def L(c):
        return led.get(id(c), [])

    def bval(c):
        l = L(c)
        if not l:
            return math.inf
        return math.fsum(float(x) for x in l) / len(l) + math.sqrt(math.log(n * k / delta) / (2 * len(l)))

    try:
        with Session(case) as s:
            try:
                s.construct()
            except Exception as e:  # noqa: BLE001
                return Outcome(aborted="exception:" + type(e).__name__, classes=classes)
            part = s.main_partition()
            udelta = user_delta(p.get("delta")) if name == "DOO" else None

            def doo_delta(h):
                if udelta is not None:
                    return udelta(h)
                m = -math.inf
                for c in part.get_node_list()[h]:
                    lo, hi = c.get_domain()[0]
                    x = c.get_cpoint()[0]
                    m = max(m, (lo - x) ** 2, (hi - x) ** 2)
                return m

            T = case["T"]
            for t in range(1, T + 1):
                nsp = len(s.split_log)
                # state at the start of the call
                leafset = {id(c): c for c in iter_tree(part.get_root()) if c.get_children() is None}
                if name == "DOO":  # delta(h) as of the tree on which the decision of this call is taken
                    dtab = [doo_delta(h) for h in range(part.get_depth() + 1)]
                try:
                    pt = s.pull()
                except Exception as e:  # noqa: BLE001
                    return Outcome(aborted="exception:" + type(e).__name__, classes=classes, rounds=t - 1)
                if pt is None:
                    return Outcome(aborted="pull-returned-None", classes=classes, rounds=t - 1)
                events = s.split_log[nsp:]
                # ---------------------------------------------------- expansions of this call
                sweep_best = -math.inf
                sweep_depth = -1
                if name == "DOO" and len(events) > 1:
                    raise Violation("one-expansion", "DOO expanded %d cells in one pull" % len(events), t)
                for ev in events:
                    par = ev["parent"]
                    h = par.get_depth()
                    if ev["prev_children"] is not None or id(par) not in leafset:
                        raise Violation("expand-leaf", "expanded the internal cell %s" % lab(par), t)
                    need = k if name == "StoSOO" else 1
                    if len(L(par)) != need:
                        raise Violation("expand-evaluated", "expanded %s after %d evaluations (needs %s%d)" % (
                            lab(par), len(L(par)), "exactly " if name == "StoSOO" else "", need), t)
                    cur = list(leafset.values())
                    for c in cur:
                        if c.get_depth() <= h and len(L(c)) == 0 and (name != "DOO" or True):
                            raise Violation("expand-before-evaluate", "expanded %s while the unevaluated leaf %s precedes it" % (lab(par), lab(c)), t)
                    same = [c for c in cur if c.get_depth() == h]
                    if name == "SOO":
                        val = L(par)[-1]
                        others = [L(c)[-1] for c in same if L(c)]
                        if not all(val >= o for o in others):
                            raise Violation("expand-best", "SOO expanded %s of reward %r, depth-%d leaves have %r" % (lab(par), val, h, sorted(others)[-3:]), t)
                        if h <= sweep_depth:
                            sweep_best, sweep_depth = -math.inf, -1  # a new top-down sweep started
                        if not val >= sweep_best:
                            raise Violation("sweep-monotone", "SOO expanded %s (reward %r) below a shallower expansion of the same sweep (%r)" % (lab(par), val, sweep_best), t)
                        sweep_best, sweep_depth = val, h
                        if len(set(others)) >= 2:
                            nontrivial = True
                    elif name == "StoSOO":
                        val = bval(par)
                        others = [bval(c) for c in same]
                        if not all(ge(val, o) for o in others):
                            raise Violation("expand-best", "StoSOO expanded %s of b=%r, depth-%d leaves have b up to %r" % (lab(par), val, h, max(others)), t)
                        if h <= sweep_depth:
                            sweep_best, sweep_depth = -math.inf, -1
                        if not ge(val, sweep_best):
                            raise Violation("sweep-monotone", "StoSOO expanded %s (b=%r) below a shallower expansion of the sweep (%r)" % (lab(par), val, sweep_best), t)
                        sweep_best, sweep_depth = val, h
                        if len(set(o for o in others if math.isfinite(o))) >= 2:
                            nontrivial = True
                    else:
                        val = L(par)[-1] + dtab[h]
                        others = [(L(c)[-1] + dtab[c.get_depth()]) for c in cur if L(c)]
                        if not all(ge(val, o) for o in others):
                            raise Violation("expand-best", "DOO expanded %s with reward+delta=%r, another leaf has %r" % (lab(par), val, max(others)), t)
                        if len(set(others)) >= 2:
                            nontrivial = True
                    del leafset[id(par)]
                    for c in ev["children"]:
                        leafset[id(c)] = c
                # ---------------------------------------------------- the cell handed out
                cell = s.cell_of(pt)
                if cell is None or id(cell) not in leafset:
                    raise Violation("handout-leaf", "the cell handed out is not a leaf of the tree", t)
                cap = 1 if name != "StoSOO" else k
                if len(L(cell)) >= cap:
                    raise Violation("evaluate-cap", "%s handed out %s which already has %d evaluations (cap %d)" % (name, lab(cell), len(L(cell)), cap), t)
                if name in ("SOO", "StoSOO") and cell.get_depth() > p["h_max"]:
                    raise Violation("depth-cap", "handed out a cell of depth %d > h_max %d" % (cell.get_depth(), p["h_max"]), t)
                if name in ("SOO", "DOO"):
                    first = None
                    for layer in part.get_node_list():
                        for c in layer:
                            if id(c) in leafset and len(L(c)) == 0:
                                first = c
                                break
                        if first is not None:
                            break
                    if first is not cell:
                        raise Violation("handout-order", "%s handed out %s, the first unevaluated leaf in top-down order is %s" % (
                            name, lab(cell), lab(first) if first is not None else None), t)
                else:
                    same = [c for c in leafset.values() if c.get_depth() == cell.get_depth()]
                    bc = bval(cell)
                    mb = max(bval(c) for c in same)
                    if not ge(bc, mb):
                        raise Violation("handout-best", "StoSOO handed out %s of b=%r, its depth has a leaf of b=%r" % (lab(cell), bc, mb), t)
                r = s.reward_for(pt)
                try:
                    s.receive(r)
                except Exception as e:  # noqa: BLE001
                    return Outcome(aborted="exception:" + type(e).__name__, classes=classes, rounds=t - 1)
                led.setdefault(id(cell), []).append(r)
            if nontrivial:
                classes.append("expansion-among-distinct-values")
            return Outcome(nontrivial=nontrivial, classes=classes, rounds=T)
    except Unattributable:
        return Outcome(aborted="point-matches-several-cells", classes=classes)
    except Violation as v:
        return Outcome(violation=v.as_dict(), classes=classes, rounds=v.round or 0)


def simplify(case):
    T = case["T"]
    for t in (1, 2, 3, 5, 10, 20, T // 2, T - 1):
        if 1 <= t < T:
            c = copy.deepcopy(case)
            c["T"] = t
            yield c
    if len(case["domain"]) > 1:
        c = copy.deepcopy(case)
        c["domain"] = c["domain"][:1]
        yield c
    if case["domain"] != [[0, 1]] * len(case["domain"]):
        c = copy.deepcopy(case)
        c["domain"] = [[0, 1] for _ in case["domain"]]
        yield c
    if case["partition"]["cls"] != "BinaryPartition":
        c = copy.deepcopy(case)
        c["partition"] = {"cls": "BinaryPartition"}
        yield c


LAWS = ["ties", "ties", "nonpos_ties", "noise", "peak", "negative", "const", "large", "bump", "neartie"]


def default_k_cases(tier):
    """StoSOO with its default k = ceil(n / ln(n)^3) for EVERY budget in a range: k + 2 rounds suffice to see
    after how many evaluations the root is expanded."""
    nmax = 6000 if tier == "quick" else 30000
    out = []
    for n in range(100, nmax + 1):
        k = math.ceil(n / math.log(n) ** 3)
        out.append({"algo": {"name": "StoSOO", "params": {"n": n, "k": None, "h_max": 40}}, "partition": {"cls": "BinaryPartition"},
                    "domain": [[0.0, 1.0]], "rng": {"mode": "seed", "seed": 0}, "T": k + 2, "reward": {"law": "noise", "seed": n}})
    return out


def run_shard(ctx):
    cases = default_k_cases(ctx.tier)
    ctx.enumerate("default-k", cases, check_case,
                  exhaustive_note="StoSOO default k for every n in 100..%d: the root must be expanded after exactly ceil(n/ln(n)^3) evaluations" % cases[-1]["algo"]["params"]["n"])
    quick = ctx.tier == "quick"
    ctx.drive("rule", gen.run_case(names=["SOO", "StoSOO", "DOO"], laws=LAWS, n_range=(100, 300) if quick else (100, 1500),
                                   script_prob=0.25, full_T_prob=0.4, T_min=3),
              check_case, ctx.budget(10000, 60000))
