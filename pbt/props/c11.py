"""C11 - Zooming keeps the domain covered by active arms and plays the max-index arm."""
import copy
import math

from hypothesis import strategies as st

from pbt import gen
from pbt.engine import Outcome, Violation
from pbt.harness import Session, in_box, leaves

PROP = "C11"
RULE = (
    "cases = Zooming x (nu, rho; weighted so that refinements happen early) x partition (weighted to midpoint splits, where the arm "
    "sits on the face shared by two children) x K x d x box x reward law x T <= 600 (thorough 3000). After every round: every active "
    "arm lies in the closed box of its cell; every leaf of the partition is an active cell or a descendant of one (coverage); the arm "
    "returned by pull maximises mean + 2 sqrt(8 phase/(2+pulls)) over the active arms (ledger means and counts, phase i lasting 2^i "
    "rounds, either phase accepted at a boundary, ties to 1e-12); stored mean/count equal the arm's ledger; the pulled arm's cell is "
    "refined <=> sqrt(8 phase/(2+pulls)) <= nu rho^depth; on refinement exactly one child containing the arm becomes its cell and "
    "every other child has a new arm at its centre with zero pulls. non-trivial = >= 1 refinement in which the arm lies on a face "
    "shared by >= 2 children; distinct = SHA-1 of the case."
)
ASSUMPTIONS = [
    "active_points / pulled_times / average_rewards are read directly (named in the property's observe_at)",
    "index and radius comparisons use tolerance 1e-12 (relative); running means are compared with the ledger mean to 1e-9",
]


def phase_of_round(t):
    """Phase in force during round t (phase i lasts 2^i rounds: rounds 2^i - 1 .. 2^(i+1) - 2)."""
    i = 1
    while 2 ** (i + 1) - 2 < t:
        i += 1
    return i


@st.composite
def cases(draw, tier):
    quick = tier == "quick"
    case = draw(gen.run_case(names=["Zooming"], midpoint_bias=True, T_max=600 if quick else 3000,
                             n_range=(100, 600) if quick else (100, 3000), script_prob=0.3, T_min=20, full_T_prob=0.5,
                             laws=["noise", "peak", "peakpos", "bump", "ties", "negative", "const", "large"]))
    case["algo"]["params"]["nu"] = draw(st.one_of(st.floats(0.5, 10.0), gen.loguniform(0.05, 10.0), st.sampled_from([20.0, 50.0, 1e3, 4e6])))
    case["algo"]["params"]["rho"] = draw(st.one_of(st.floats(0.7, 0.99), st.floats(0.05, 0.99), st.sampled_from([0.99, 0.995])))
    if draw(st.integers(0, 24)) == 0:
        # a few long horizons with few arms (small nu: no refinement), so that single arms collect
        # thousands of pulls - behaviour that only changes at large counts is otherwise out of reach
        case["T"] = draw(st.integers(1500, 3000))
        case["algo"]["n"] = case["T"]
        case["algo"]["params"]["nu"] = draw(st.sampled_from([0.01, 0.05, 0.3, 1.0]))
        case["reward"] = {"law": draw(st.sampled_from(["const", "ties", "peakpos", "noise"])), "seed": draw(st.integers(0, 999)),
                          "params": {"c": 0.5, "star": [0.4], "sigma": 0.05}}
    return case


def check_case(case):
    p = case["algo"]["params"]
    nu, rho = p["nu"], p["rho"]
    classes = ["part:" + case["partition"]["cls"], "d:%d" % len(case["domain"]), "law:" + case["reward"].get("law", "noise")]
    led = {}
    shared_face_refinements = 0
    refinements = 0
    try:
        with Session(case) as s:
            try:
                s.construct()
            except Exception as e:  # noqa: BLE001
                return Outcome(aborted="exception:" + type(e).__name__, classes=classes)
            z = s.algo
            part = s.main_partition()

            def structural(t):
                cells = {}
                for arm, cell in z.active_points.items():
                    if not in_box(arm.get_point(), cell.get_domain()):
                        raise Violation("arm-in-cell", "active arm %r lies outside its cell %r" % (arm.get_point(), cell.get_domain()), t)
                    cells[id(cell)] = cell
                for lf in leaves(part.get_root()):
                    n = lf
                    while n is not None and id(n) not in cells:
                        n = n.get_parent()
                    if n is None:
                        raise Violation("coverage", "leaf (%d,%d) %r is covered by no active arm" % (lf.get_depth(), lf.get_index(), lf.get_domain()), t)
                for arm in z.active_points:
                    l = led.get(id(arm), [])
                    if z.pulled_times[arm] != len(l):
                        raise Violation("arm-count", "arm pulled %d times, records %r" % (len(l), z.pulled_times[arm]), t)
                    m = math.fsum(float(x) for x in l) / len(l) if l else 0.0
                    sc = max([1.0] + [abs(float(x)) for x in l])
                    if abs(float(z.average_rewards[arm]) - m) > 1e-9 * sc:
                        raise Violation("arm-mean", "arm mean %r, ledger mean %r" % (z.average_rewards[arm], m), t)

            structural(0)
            T = case["T"]
            for t in range(1, T + 1):
                nsp = len(s.split_log)
                try:
                    pt = s.pull()
                except Exception as e:  # noqa: BLE001
                    return Outcome(aborted="exception:" + type(e).__name__, classes=classes, rounds=t - 1)
                arms = [a for a in z.active_points if a.get_point() is pt] or \
                    [a for a in z.active_points if list(a.get_point()) == list(pt)]
                if len(arms) != 1:
                    raise Violation("pull-active-arm", "the returned point belongs to %d active arms" % len(arms), t)
                arm = arms[0]
                # ---- index maximisation
                stats = []
                for a2 in z.active_points:
                    l = led.get(id(a2), [])
                    stats.append((a2, math.fsum(float(x) for x in l) / len(l) if l else 0.0, len(l)))
                ok = False
                detail = ""
                for ph in sorted(set([phase_of_round(t), phase_of_round(max(1, t - 1)), phase_of_round(t + 1)])):
                    idx = {id(a2): m + 2 * math.sqrt(8 * ph / (2 + n)) for a2, m, n in stats}
                    best = max(idx.values())
                    if idx[id(arm)] >= best - 1e-12 * max(1.0, abs(best)):
                        ok = True
                        break
                    detail = "phase %d: pulled arm index %r, best %r" % (ph, idx[id(arm)], best)
                if not ok:
                    raise Violation("max-index", detail, t)
                cell_before = z.active_points[arm]
                depth_before = cell_before.get_depth()
                r = s.reward_for(pt)
                try:
                    s.receive(r)
                except Exception as e:  # noqa: BLE001
                    return Outcome(aborted="exception:" + type(e).__name__, classes=classes, rounds=t - 1)
                led.setdefault(id(arm), []).append(r)
                # ---- refinement rule
                events = s.split_log[nsp:]
                if len(events) > 1:
                    raise Violation("one-refinement", "%d cells refined in one round" % len(events), t)
                refined = len(events) == 1
                pulls = len(led[id(arm)])
                thr = nu * rho ** depth_before
                rad = [math.sqrt(8 * ph / (2 + pulls)) for ph in (phase_of_round(t), phase_of_round(t + 1))]
                must = all(x <= thr * (1 - 1e-12) for x in rad)
                mustnot = all(x > thr * (1 + 1e-12) for x in rad)
                if (must and not refined) or (mustnot and refined):
                    raise Violation("refinement-rule", "cell of depth %d %s: radius %r vs nu rho^depth = %r (pulls %d)" % (
                        depth_before, "refined" if refined else "not refined", rad, thr, pulls), t)
                if refined:
                    ev = events[0]
                    refinements += 1
                    if ev["parent"] is not cell_before:
                        raise Violation("refinement-site", "refined a cell other than the pulled arm's", t)
                    kids = ev["children"]
                    holder = z.active_points.get(arm)
                    if not any(holder is c for c in kids):
                        raise Violation("arm-handover", "after refinement the arm's cell is not a child of the refined cell", t)
                    if not in_box(arm.get_point(), holder.get_domain()):
                        raise Violation("arm-handover", "the arm was handed to a child that does not contain it", t)
                    containing = [c for c in kids if in_box(arm.get_point(), c.get_domain())]
                    if len(containing) >= 2:
                        shared_face_refinements += 1
                    for c in kids:
                        if c is holder:
                            continue
                        new = [a2 for a2, cc in z.active_points.items() if cc is c]
                        if len(new) != 1:
                            raise Violation("child-arm", "child (%d,%d) of the refined cell has %d arms" % (c.get_depth(), c.get_index(), len(new)), t)
                        a2 = new[0]
                        if a2.get_point() is not c.get_cpoint() and list(a2.get_point()) != list(c.get_cpoint()):
                            raise Violation("child-arm", "new arm %r is not the centre %r of its cell" % (a2.get_point(), c.get_cpoint()), t)
                        if z.pulled_times[a2] != 0:
                            raise Violation("child-arm", "new arm starts with %r pulls" % (z.pulled_times[a2],), t)
                structural(t)
            if shared_face_refinements:
                classes.append("refinement-with-arm-on-shared-face")
            if refinements:
                classes.append("refined")
            return Outcome(nontrivial=shared_face_refinements >= 1, classes=classes, rounds=T)
    except Violation as v:
        return Outcome(violation=v.as_dict(), classes=classes, rounds=v.round or 0)


def simplify(case):
    T = case["T"]
    for t in (5, 10, 20, 50, T // 2, T - 1):
        if 1 <= t < T:
            c = copy.deepcopy(case)
            c["T"] = t
            yield c
    if len(case["domain"]) > 1:
        c = copy.deepcopy(case)
        c["domain"] = c["domain"][:1]
        yield c
    if case["domain"] != [[0, 1]] * len(case["domain"]):
        c = copy.deepcopy(case)
        c["domain"] = [[0, 1] for _ in case["domain"]]
        yield c
    if case["partition"]["cls"] != "BinaryPartition":
        c = copy.deepcopy(case)
        c["partition"] = {"cls": "BinaryPartition"}
        yield c
    if case["reward"].get("law") != "noise":
        c = copy.deepcopy(case)
        c["reward"] = {"law": "noise", "seed": 1}
        yield c


def run_shard(ctx):
    ctx.drive("zooming", cases(ctx.tier), check_case, ctx.budget(6000, 40000))
