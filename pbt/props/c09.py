"""C09 - GPO / PCT / VPCT run the published schedule of base learners and validation."""
import copy
import math
import random

from hypothesis import strategies as st

from pbt import gen
from pbt.engine import Outcome, Violation
from pbt.harness import Session, algo_label

PROP = "C09"
RULE = (
    "subcheck 'schedule' (reward-independent, enumerated EXHAUSTIVELY over n in 100..2000 (thorough ..5000) x a grid of 32 (60) "
    "rho_max values x base name in {T_HOO, HCT, VHCT}): GPO is driven with an O(1) stub learner carrying the base class name; "
    "subcheck 'real': GPO over recording subclasses of the real T_HOO/HCT/VHCT and PCT/VPCT (module attribute replaced) x partition x "
    "box x reward law, drawn by Hypothesis. Oracle (reference N = ceil(0.5 Dmax ln((n/2)/ln(n/2))), L = floor(n/2N)): learner i = 1..N "
    "is constructed exactly once, in order, with nu_max and rho_max^(2N/(2i+1)) (rel 1e-12), all distinct; it sees exactly L alternating "
    "pull/receive pairs, each reward being that of the point it just proposed; the next L rounds return its last proposal and reach "
    "no learner; the phase score equals the fsum mean of exactly those L rewards; after 2NL rounds pull and get_last_point return the "
    "validated point of a max-score phase and later rewards change nothing. non-trivial = N >= 2 and the run covers >= 1 phase "
    "boundary; distinct = SHA-1 of the case."
)
ASSUMPTIONS = [
    "floor(n/(2N)) >= 1 (smaller budgets are the open finding D8 of C01)",
    "cases whose ceil/floor argument lies within 1e-9 of an integer are skipped (counted)",
    "validation scores are read from V_reward (named in the property's state) and cross-checked through get_last_point",
]


def ref_schedule(n, rhomax):
    Dmax = math.log(2) / math.log(1 / rhomax)
    x = 0.5 * Dmax * math.log((n / 2) / math.log(n / 2))
    if abs(x - round(x)) < 1e-9 * max(1, abs(x)):
        return None
    N = math.ceil(x)
    if N < 1:
        return None
    y = n / (2 * N)
    L = n // (2 * N)
    return N, L


class _Log:
    def __init__(self, index, kwargs):
        self.index = index
        self.kwargs = kwargs
        self.pulls = []
        self.rewards = []


def make_stub(base_name, logs, clock):
    class Stub:
        def __init__(self, nu=None, rho=None, rounds=None, domain=None, partition=None, **kw):
            kwargs = {"nu": nu, "rho": rho, "domain": domain, "partition": partition}
            if rounds is not None:
                kwargs["rounds"] = rounds
            self.log = _Log(len(logs), kwargs)
            logs.append(self.log)
            self.k = 0

        def pull(self, time):
            self.k += 1
            p = [float(self.log.index), float(self.k)]
            self.log.pulls.append((clock[0], "pull", p))
            return p

        def receive_reward(self, time, reward):
            self.log.rewards.append((clock[0], reward))

        def get_last_point(self):
            return self.pull(0)

    Stub.__name__ = base_name
    return Stub


def _same(a, b):
    return a is b or (isinstance(a, list) and isinstance(b, list) and a == b)


def judge(n, numax, rhomax, base_name, logs, points, rewards, algo, T, skip_ok=True):
    """points[t-1], rewards[t-1] for rounds 1..T; logs = learner logs in construction order."""
    sched = ref_schedule(n, rhomax)
    if sched is None:
        return "skipped-near-integer"
    N, L = sched
    if L < 1:
        return "skipped-D8"
    ga = getattr(algo, "algorithm", algo)
    done_rounds = min(T, 2 * N * L)
    # learners that must exist after T rounds
    need = min(N, (done_rounds + 2 * L - 1) // (2 * L)) if done_rounds else 0
    if len(logs) != need:
        raise Violation("learner-count", "after %d rounds %d learners were built, schedule (N=%d, L=%d) requires %d" % (T, len(logs), N, L, need), T)
    rhos = []
    for i, lg in enumerate(logs, start=1):
        kw = lg.kwargs
        want = rhomax ** (2.0 * N / (2 * i + 1))
        if kw.get("nu") != numax:
            raise Violation("learner-params", "learner %d built with nu=%r, nu_max=%r" % (i, kw.get("nu"), numax), T)
        if not abs(float(kw.get("rho")) - want) <= 1e-12 * want:
            raise Violation("learner-params", "learner %d built with rho=%r, expected rho_max^(2N/(2i+1)) = %r" % (i, kw.get("rho"), want), T)
        rhos.append(float(kw.get("rho")))
        start = (i - 1) * 2 * L  # rounds start+1 .. start+L explore, start+L+1 .. start+2L validate
        exp_rounds = [t for t in range(start + 1, start + L + 1) if t <= T]
        pr = [x[0] for x in lg.pulls if x[1] == "pull"]
        rr = [x[0] for x in lg.rewards]
        if pr != exp_rounds or rr != exp_rounds:
            raise Violation("learner-rounds", "learner %d pulled in rounds %r.., rewarded in %r.., schedule says %d..%d" % (
                i, pr[:3] + pr[-2:], rr[:3] + rr[-2:], start + 1, start + L), T)
        for (t, _, p), (t2, rw) in zip([x for x in lg.pulls if x[1] == "pull"], lg.rewards):
            if points[t - 1] is not p:
                raise Violation("proposal-returned", "round %d: GPO did not return learner %d's proposal" % (t, i), t)
            if not (rw == rewards[t - 1]):
                raise Violation("reward-routing", "round %d: learner %d received %r, the round's reward was %r" % (t, i, rw, rewards[t - 1]), t)
        val_rounds = [t for t in range(start + L + 1, start + 2 * L + 1) if t <= T]
        if val_rounds:
            last = [x for x in lg.pulls if x[1] == "pull"][-1][2]
            for t in val_rounds:
                if not _same(points[t - 1], last):
                    raise Violation("validation-point", "round %d validates %r, learner %d's last proposal was %r" % (t, points[t - 1], i, last), t)
            vr = [rewards[t - 1] for t in val_rounds]
            score = math.fsum(float(x) for x in vr) / len(vr)
            if len(ga.V_reward) < i:
                raise Violation("validation-score", "no score recorded for phase %d" % i, T)
            scale = max(1.0, max(abs(float(x)) for x in vr))
            if abs(float(ga.V_reward[i - 1]) - score) > 1e-9 * scale:
                raise Violation("validation-score", "phase %d score %r, mean of its %d validation rewards %r" % (i, ga.V_reward[i - 1], len(vr), score), T)
    if len(set(rhos)) != len(rhos):
        raise Violation("learner-params", "learner rho values are not distinct: %r" % (rhos,), T)
    if T >= 2 * N * L:
        scores = []
        lastpts = []
        for i, lg in enumerate(logs, start=1):
            start = (i - 1) * 2 * L
            vr = [rewards[t - 1] for t in range(start + L + 1, start + 2 * L + 1)]
            scores.append(math.fsum(float(x) for x in vr) / len(vr))
            lastpts.append([x for x in lg.pulls if x[1] == "pull"][-1][2])
        best = max(scores)
        scale = max(1.0, max(abs(float(x)) for x in rewards[:2 * N * L]))
        okpts = [lastpts[k] for k in range(N) if abs(scores[k] - best) <= 1e-9 * scale]
        for t in range(2 * N * L + 1, T + 1):
            if not any(_same(points[t - 1], q) for q in okpts):
                raise Violation("final-point", "round %d after the last phase returned %r, best validated point(s) %r" % (t, points[t - 1], okpts), t)
        lp = algo.get_last_point()
        if not any(_same(lp, q) for q in okpts):
            raise Violation("final-point", "get_last_point() = %r, best validated point(s) %r (scores %r)" % (lp, okpts, scores), T)
        if len(ga.V_reward) != N:
            raise Violation("validation-score", "%d scores for N=%d phases" % (len(ga.V_reward), N), T)
    return (N, L)


def check_stub(case):
    from PyXAB.algos.GPO import GPO

    n, rhomax, base = case["n"], case["rhomax"], case["base"]
    classes = ["stub:" + base]
    logs = []
    clock = [0]
    sched = ref_schedule(n, rhomax)
    if sched is None or sched[1] < 1:
        return Outcome(aborted="skipped-near-integer" if sched is None else "skipped-D8", classes=classes)
    rng = random.Random(case.get("seed", 0) * 1000003 + n)
    T = case.get("T", n)
    try:
        algo = GPO(numax=case.get("numax", 1.0), rhomax=rhomax, rounds=n, domain=[[0, 1]], partition=object,
                   algo=make_stub(base, logs, clock))
        points, rewards = [], []
        for t in range(1, T + 1):
            clock[0] = t
            p = algo.pull(t)
            r = rng.random() if case.get("law") != "neg" else -rng.random()
            algo.receive_reward(t, r)
            points.append(p)
            rewards.append(r)
        clock[0] = T + 1
        res = judge(n, case.get("numax", 1.0), rhomax, base, logs, points, rewards, algo, T)
    except Violation as v:
        return Outcome(violation=v.as_dict(), classes=classes, rounds=T)
    except Exception as e:  # noqa: BLE001
        return Outcome(aborted="exception:" + type(e).__name__, classes=classes)
    N, L = res
    classes.append("N>=2" if N >= 2 else "N=1")
    return Outcome(nontrivial=N >= 2 and T > 2 * L, classes=classes, rounds=T)


def check_real(case):
    a = case["algo"]
    name, p = a["name"], a["params"]
    classes = ["algo:" + algo_label(a), "part:" + case["partition"]["cls"], "law:" + case["reward"].get("law", "noise")]
    base = {"PCT": "HCT", "VPCT": "VHCT"}.get(name, a.get("base"))
    T = case["T"]
    try:
        with Session(case, record_learners=True) as s:
            try:
                s.construct()
                for t in range(1, T + 1):
                    s.step()
            except Exception as e:  # noqa: BLE001
                return Outcome(aborted="exception:" + type(e).__name__, classes=classes)
            s.clock.round = T + 1
            s.clock.stage = "last"
            res = judge(p["rounds"], p["numax"], p["rhomax"], base, s.learners, s.points, s.rewards, s.algo, T)
    except Violation as v:
        return Outcome(violation=v.as_dict(), classes=classes, rounds=T)
    except Exception as e:  # noqa: BLE001
        return Outcome(aborted="exception:" + type(e).__name__, classes=classes)
    if isinstance(res, str):
        return Outcome(aborted=res, classes=classes)
    N, L = res
    if T >= 2 * N * L:
        classes.append("ran-past-last-phase")
    return Outcome(nontrivial=N >= 2 and T > 2 * L, classes=classes, rounds=T)


def check_case(case):
    return check_stub(case) if "rhomax" in case else check_real(case)


def rho_grid(k):
    lo, hi = 0.05, 0.995
    g = [round(lo + (hi - lo) * (i / (k - 1)) ** 0.5, 6) for i in range(k)]
    # rho_max close to 1: consecutive grid values rho_max^(2N/(2i+1)) come very close to each other
    return g + [0.996, 0.9965, 0.997, 0.998]


def stub_cases(tier):
    nmax, k = (2000, 32) if tier == "quick" else (5000, 60)
    out = []
    for n in range(100, nmax + 1):
        # rho_max values constructed to land the published N on chosen targets, in particular the
        # regimes with only one or two rounds per half phase (N = n/2, n/2 - 1, n/3, n/4)
        lg = math.log((n / 2) / math.log(n / 2))
        extra = []
        for Nt in (n // 2, n // 2 - 1, n // 3, n // 4):
            Dmax = 2 * (Nt - 0.5) / lg
            extra.append(round(2.0 ** (-1.0 / Dmax), 9))
        for j, rm in enumerate(rho_grid(k) + extra):
            out.append({"n": n, "rhomax": rm, "base": ("T_HOO", "HCT", "VHCT")[(n + j) % 3], "seed": j,
                        "law": "neg" if (n + j) % 5 == 0 else "pos"})
    return out


def simplify(case):
    if "rhomax" in case:
        return
    T = case["T"]
    for t in (T // 2, T - 1):
        if 1 <= t < T:
            c = copy.deepcopy(case)
            c["T"] = t
            yield c
    if case["partition"]["cls"] != "BinaryPartition":
        c = copy.deepcopy(case)
        c["partition"] = {"cls": "BinaryPartition"}
        yield c
    if case["domain"] != [[0, 1]]:
        c = copy.deepcopy(case)
        c["domain"] = [[0, 1]]
        yield c


def run_shard(ctx):
    quick = ctx.tier == "quick"
    cases = stub_cases(ctx.tier)
    ctx.enumerate("schedule", cases, check_case,
                  exhaustive_note="GPO schedule with stub learners: all n in 100..%d x %d rho_max values (%d cases), each run for n rounds"
                  % (2000 if quick else 5000, 32 if quick else 60, len(cases)))
    ctx.drive("real", gen.run_case(names=["GPO", "GPO", "PCT", "VPCT"], gpo_ok_only=True, n_range=(100, 400) if quick else (100, 2000),
                                   script_prob=0.2, full_T_prob=0.6, T_min=20,
                                   laws=["noise", "peak", "negative", "ties", "const", "large", "bump"]),
              check_case, ctx.budget(2000, 16000))
