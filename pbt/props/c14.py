"""C14 - runs are reproducible, instances are isolated, user inputs are not mutated."""
import contextlib
import copy
import json
import os
import subprocess
import sys

from hypothesis import strategies as st
from hypothesis.stateful import RuleBasedStateMachine, initialize, precondition, rule

from pbt import engine, gen
from pbt.engine import Outcome, Violation, _Found
from pbt.harness import Session, algo_label, partition_uses_rng

PROP = "C14"
RULE = (
    "subcheck 'repeat': any configuration (all 14 algorithms, NumPy-seeded, never the injected script) is run twice in one process "
    "with the same seed and reward law (point-dependent laws make trajectories state-dependent): the point sequences and the "
    "recommendation must be bit-identical, and the domain object handed to the algorithm must afterwards equal a deep copy taken "
    "before construction in values, element types and inner-list identity (one case in twelve hands the box over as a 2-D float NumPy "
    "array and judges only that the array is not written to). subcheck 'interleave': a Hypothesis RuleBasedStateMachine "
    "holds two independently constructed instances (RNG-free partitions; VROOM, which draws from NumPy's global generator, takes part "
    "because every instance gets its own generator state, swapped in around each of its calls) and Hypothesis chooses the "
    "subcheck 'twins' (two instances of the same class on the same partition class and the same domain list object, alternating for up to 150 rounds each) and the interleaving of whole rounds (step_A / step_B) and of split rounds (pull_A ... calls on B ... receive_A); each instance's sequence must equal the one it produces alone. subcheck 'process' : the same "
    "case is run in fresh subprocesses under PYTHONHASHSEED in {0, 1, 12345}, one of them after allocating garbage (shifts object ids), "
    "and once more inside the worker itself right after a 'polluter' instance of the same algorithm class on another domain (the "
    "worker has run hundreds of other instances by then); all outputs must be identical. non-trivial = >= 20 rounds, point-dependent rewards and (interleave) >= 5 switches between the two "
    "instances; distinct = SHA-1 of the case / history."
)
ASSUMPTIONS = [
    "runs that raise are compared by (round, exception type); a crash common to both runs is C01's business and counted as aborted",
    "the interleaving part uses algorithms and partitions that draw no random numbers (the property's quantifier)",
]

RNG_FREE_ALGOS = ["T_HOO", "HCT", "VHCT", "DOO", "SOO", "StoSOO", "SequOOL", "StroquOOL", "Zooming", "POO", "GPO", "PCT", "VPCT"]


def trace(case, with_last=True):
    """Run a case; returns dict(points=[...], last=..., error=..., domain_msg=...)."""
    out = {"points": [], "last": None, "error": None, "domain": None, "splits": 0}
    with Session(case, record_partitions=False) as s:
        try:
            s.construct()
            msg = s.domain_unchanged()
            for _ in range(case["T"]):
                pt, r = s.step()
                out["points"].append([repr(x) for x in pt] if isinstance(pt, list) else repr(pt))
            if with_last:
                try:
                    lp = s.last_point()
                    out["last"] = [repr(x) for x in lp] if isinstance(lp, list) else repr(lp)
                except Exception as e:  # noqa: BLE001 - e.g. open finding D11: compared as an outcome
                    out["last"] = "raises:" + type(e).__name__
        except Exception as e:  # noqa: BLE001
            out["error"] = "%s@%d" % (type(e).__name__, len(out["points"]) + 1)
        out["domain"] = s.domain_unchanged()
    return out


def first_diff(a, b):
    for i, (x, y) in enumerate(zip(a, b)):
        if x != y:
            return i + 1, x, y
    if len(a) != len(b):
        return min(len(a), len(b)) + 1, None, None
    return None


def check_repeat(case):
    classes = ["algo:" + algo_label(case["algo"]), "part:" + case["partition"]["cls"], "law:" + case["reward"].get("law", "noise")]
    if case.get("descending"):
        # the library's own tests hand partitions a range written high-to-low ([-5, -10]); whatever the code
        # makes of it, the user's list must not be rewritten.  Only the domain clause is judged here.
        c = copy.deepcopy(case)
        k = case["descending"] % len(c["domain"])
        c["domain"][k] = [c["domain"][k][1], c["domain"][k][0]]
        c["T"] = min(c["T"], 5)
        a = trace(c)
        classes.append("descending-range")
        if a["domain"]:
            return Outcome(violation={"clause": "domain-mutated", "msg": "the user's domain object was modified: %s" % a["domain"], "round": None}, classes=classes)
        return Outcome(nontrivial=False, classes=classes, rounds=len(a["points"]))
    if case.get("ndarray_domain"):
        # the box handed over as a 2-D float NumPy array (not the documented container, but accepted by the
        # unchanged library and treated like the list of lists): whatever the code makes of it, the user's array
        # must not be written to.  Only the domain clause is judged; an exception is inconclusive.
        import numpy as np

        classes.append("ndarray-domain")
        if any(float(b) != b for ax in case["domain"] for b in ax):
            return Outcome(classes=classes)
        arr = np.array(case["domain"], dtype=float)
        snap = arr.copy()
        n = 0
        with Session(case, record_partitions=False, domain_obj=arr) as s:
            try:
                s.construct()
                for _ in range(min(case["T"], 30)):
                    s.step()
                    n += 1
            except Exception as e:  # noqa: BLE001
                if np.array_equal(arr, snap):
                    return Outcome(aborted="ndarray-rejected:" + type(e).__name__, classes=classes)
        if not np.array_equal(arr, snap):
            return Outcome(violation={"clause": "domain-mutated", "round": None,
                                      "msg": "the user's domain array was modified: %r -> %r" % (snap.tolist(), arr.tolist())}, classes=classes)
        return Outcome(nontrivial=False, classes=classes, rounds=n)
    a = trace(case)
    b = trace(case)
    if a["domain"] or b["domain"]:
        return Outcome(violation={"clause": "domain-mutated", "msg": "the user's domain object was modified: %s" % (a["domain"] or b["domain"]),
                                  "round": None}, classes=classes)
    d = first_diff(a["points"], b["points"])
    if d:
        return Outcome(violation={"clause": "not-reproducible", "msg": "round %d: first run %r, second run %r" % d, "round": d[0]}, classes=classes)
    if a["error"] != b["error"] or a["last"] != b["last"]:
        return Outcome(violation={"clause": "not-reproducible", "msg": "recommendation/outcome differs: %r/%r vs %r/%r" % (a["last"], a["error"], b["last"], b["error"]),
                                  "round": case["T"]}, classes=classes)
    if a["error"]:
        return Outcome(aborted="exception:" + a["error"].split("@")[0], classes=classes)
    pd = case["reward"].get("law") in ("peak", "peakpos", "bump")
    if pd:
        classes.append("point-dependent-rewards")
    return Outcome(nontrivial=case["T"] >= 20 and pd, classes=classes, rounds=2 * case["T"])


# ------------------------------------------------------------------ interleaving


class RngSlots:
    """One NumPy global-generator state per instance, swapped in around every call on that instance, so that an
    instance which draws from ``np.random`` (VROOM; a partition's split axis) sees under any interleaving exactly
    the stream it sees alone. With it the interleaving clause is sound for algorithms that use the generator:
    whatever then differs from the solo run is state shared between the two objects, not the shared stream."""

    def __init__(self):
        self.state = {}

    def init(self, who, case):
        import numpy as np

        np.random.seed((case.get("rng") or {}).get("seed", 0) % (2 ** 32))
        self.state[who] = np.random.get_state()

    @contextlib.contextmanager
    def use(self, who):
        import numpy as np

        np.random.set_state(self.state[who])
        try:
            yield
        finally:
            self.state[who] = np.random.get_state()


def run_interleaved(caseA, caseB, schedule, share_domain=False):
    """Returns (pointsA, pointsB, error) for the interleaved execution."""
    pts = {"A": [], "B": []}
    shared = copy.deepcopy(caseA["domain"]) if share_domain else None
    with contextlib.ExitStack() as st_:
        sess = {"A": st_.enter_context(Session(caseA, record_partitions=False, domain_obj=shared)),
                "B": st_.enter_context(Session(caseB, record_partitions=False, domain_obj=shared))}
        slots = RngSlots()
        slots.init("A", caseA)
        slots.init("B", caseB)
        try:
            with slots.use("A"):
                sess["A"].construct()
            with slots.use("B"):
                sess["B"].construct()
            pending = {}
            for tok in schedule:
                who = {"A": "A", "a": "A", "x": "A", "B": "B", "b": "B", "y": "B"}[tok]
                s = sess[who]
                with slots.use(who):
                    if tok in "AB":
                        pt, r = s.step()
                    elif tok in "ab":  # pull only; the reward arrives later, after calls on the other instance
                        pt = s.pull()
                        pending[who] = (pt, s.reward_for(pt))
                        continue
                    else:
                        pt, r = pending.pop(who)
                        s.receive(r)
                pts[who].append([repr(x) for x in pt] if isinstance(pt, list) else repr(pt))
        except Exception as e:  # noqa: BLE001
            return pts["A"], pts["B"], type(e).__name__
    return pts["A"], pts["B"], None


def check_interleave(case):
    A, B, sched = case["A"], case["B"], case["schedule"]
    classes = ["pair:%s+%s" % (algo_label(A["algo"]), algo_label(B["algo"]))]
    ia, ib, err = run_interleaved(A, B, sched, share_domain=bool(case.get("share_domain")))
    if case.get("share_domain"):
        classes.append("shared-domain-object")
    if err:
        return Outcome(aborted="exception:" + err, classes=classes)
    for who, got, c in (("A", ia, A), ("B", ib, B)):
        solo = dict(c)
        solo["T"] = len(got)
        ref = trace(solo, with_last=False)
        if ref["error"]:
            return Outcome(aborted="exception:" + ref["error"].split("@")[0], classes=classes)
        d = first_diff(ref["points"], got)
        if d:
            return Outcome(violation={"clause": "instances-interfere", "msg": "instance %s (%s), its round %d: alone %r, interleaved %r" % (
                who, algo_label(c["algo"]), d[0], d[1], d[2]), "round": d[0]}, classes=classes)
    owner = [{"A": "A", "a": "A", "x": "A", "B": "B", "b": "B", "y": "B"}[t] for t in sched]
    switches = sum(1 for x, y in zip(owner, owner[1:]) if x != y)
    if any(t in "abxy" for t in sched):
        classes.append("split-round-interleaving")
    pd = all(c["reward"].get("law") in ("peak", "peakpos", "bump") for c in (A, B))
    if switches >= 5:
        classes.append("switches>=5")
    return Outcome(nontrivial=len(sched) >= 20 and switches >= 5 and pd, classes=classes, rounds=len(sched))


@st.composite
def rngfree_case(draw, name=None):
    # VROOM draws from NumPy's global generator; RngSlots gives every instance its own stream (see there)
    name = name or draw(st.sampled_from(RNG_FREE_ALGOS + ["VROOM"]))
    d = 1 if name == "VROOM" else draw(st.integers(1, 2))
    dom = draw(gen.domains(max_d=d, min_d=d))
    if name == "VROOM":  # binary children only (open finding D10)
        pspec = draw(st.sampled_from([{"cls": "BinaryPartition"}, {"cls": "DimensionBinaryPartition"},
                                      {"cls": "KaryPartition", "K": 2}]))
    elif d == 1:
        pspec = draw(st.sampled_from([{"cls": "BinaryPartition"}, {"cls": "DimensionBinaryPartition"},
                                      {"cls": "KaryPartition", "K": 2}, {"cls": "KaryPartition", "K": 3}]))
    else:
        pspec = {"cls": "DimensionBinaryPartition"}
    aspec = draw(gen.algo_spec(name, d, pspec, n_range=(100, 200), poo_ok_only=True, gpo_ok_only=True))
    rw = draw(gen.rewards(laws=["peak", "peakpos", "bump", "bump", "peak", "noise"], d=d, T=60, max_over=1))
    return {"algo": aspec, "partition": pspec, "domain": dom, "rng": {"mode": "seed", "seed": draw(st.integers(0, 999))},
            "T": 0, "reward": rw}


def make_machine(col, sub):
    class TwoInstances(RuleBasedStateMachine):
        def __init__(self):
            super().__init__()
            self.case = None
            self.stack = contextlib.ExitStack()
            self.sess = {}
            self.pts = {"A": [], "B": []}
            self.pending = {}
            self.dead = None
            self.slots = RngSlots()

        @initialize(data=st.data())
        def init(self, data):
            # shared state usually lives in a class or module: half of the pairs are two instances of the
            # same algorithm class (with independently drawn parameters, partitions and domains)
            A = data.draw(rngfree_case())
            same = data.draw(st.integers(0, 9)) < 6
            B = data.draw(rngfree_case(name=A["algo"]["name"] if same else None))
            share = len(A["domain"]) == len(B["domain"]) and data.draw(st.integers(0, 2)) == 0
            if share:
                # users routinely hand the same domain list to several instances
                B = dict(B)
                B["domain"] = copy.deepcopy(A["domain"])
                if B["partition"]["cls"] != A["partition"]["cls"] and data.draw(st.booleans()) and (
                        B["algo"]["name"] != "VROOM" or A["partition"].get("K", 2) == 2):  # VROOM: binary children only
                    B["partition"] = copy.deepcopy(A["partition"])
            self.case = {"A": A, "B": B, "schedule": ""}
            shared = None
            if share:
                self.case["share_domain"] = True
                shared = copy.deepcopy(A["domain"])
            try:
                self.sess["A"] = self.stack.enter_context(Session(A, record_partitions=False, domain_obj=shared))
                self.sess["B"] = self.stack.enter_context(Session(B, record_partitions=False, domain_obj=shared))
                self.slots.init("A", A)
                self.slots.init("B", B)
                with self.slots.use("A"):
                    self.sess["A"].construct()
                with self.slots.use("B"):
                    self.sess["B"].construct()
            except Exception as e:  # noqa: BLE001
                self.dead = "exception:" + type(e).__name__

        def _step(self, who):
            if self.dead or self.case is None:
                return
            n = gen.budget_of(self.case[who]["algo"])
            if len(self.pts[who]) >= min(n, 90):
                return
            self.case["schedule"] += who
            try:
                with self.slots.use(who):
                    pt, r = self.sess[who].step()
                self.pts[who].append([repr(x) for x in pt] if isinstance(pt, list) else repr(pt))
            except Exception as e:  # noqa: BLE001
                self.dead = "exception:" + type(e).__name__

        @precondition(lambda self: self.case is not None and "A" not in self.pending)
        @rule(k=st.integers(1, 4))
        def step_A(self, k):
            for _ in range(k):
                self._step("A")

        @precondition(lambda self: self.case is not None and "B" not in self.pending)
        @rule(k=st.integers(1, 4))
        def step_B(self, k):
            for _ in range(k):
                self._step("B")

        # finer grain: the other instance is called between an instance's pull and its receive_reward
        def _pull(self, who):
            if self.dead:
                return
            n = gen.budget_of(self.case[who]["algo"])
            if len(self.pts[who]) >= min(n, 90):
                return
            self.case["schedule"] += who.lower()
            try:
                with self.slots.use(who):
                    pt = self.sess[who].pull()
                self.pending[who] = (pt, self.sess[who].reward_for(pt))
            except Exception as e:  # noqa: BLE001
                self.dead = "exception:" + type(e).__name__

        def _recv(self, who):
            if self.dead:
                return
            self.case["schedule"] += {"A": "x", "B": "y"}[who]
            pt, r = self.pending.pop(who)
            try:
                with self.slots.use(who):
                    self.sess[who].receive(r)
                self.pts[who].append([repr(x) for x in pt] if isinstance(pt, list) else repr(pt))
            except Exception as e:  # noqa: BLE001
                self.dead = "exception:" + type(e).__name__

        @precondition(lambda self: self.case is not None and "A" not in self.pending)
        @rule()
        def pull_A(self):
            self._pull("A")

        @precondition(lambda self: self.case is not None and "A" in self.pending)
        @rule()
        def receive_A(self):
            self._recv("A")

        @precondition(lambda self: self.case is not None and "B" not in self.pending)
        @rule()
        def pull_B(self):
            self._pull("B")

        @precondition(lambda self: self.case is not None and "B" in self.pending)
        @rule()
        def receive_B(self):
            self._recv("B")

        def teardown(self):
            for who in list(self.pending):
                self._recv(who)  # finish open rounds so that the history is well formed
            self.stack.close()
            if self.case is None:
                return
            if self.dead:
                col.add(sub, copy.deepcopy(self.case), Outcome(aborted=self.dead))
                return
            out = check_interleave(self.case)
            col.add(sub, copy.deepcopy(self.case), out)
            if out.violation:
                raise _Found()

    return TwoInstances


# ------------------------------------------------------------------ subprocess differential


def check_process(case):
    classes = ["algo:" + algo_label(case["algo"]), "process"]
    outs = []
    for hs, garbage in (("0", 0), ("1", 0), ("12345", 200000)):
        env = dict(os.environ, PYTHONHASHSEED=hs, VERIF_GARBAGE=str(garbage), PYTHONPATH=engine.VERIF)
        r = subprocess.run([sys.executable, "-m", "pbt.runcase"], input=json.dumps(case), capture_output=True, text=True,
                           env=env, cwd=engine.VERIF, timeout=300)
        if r.returncode != 0:
            raise engine.HarnessError("runcase failed: %s" % r.stderr[-500:])
        outs.append(json.loads(r.stdout))
    # the same case inside this worker, which has already run many other instances, right after a
    # 'polluter' (same algorithm class, other domain / seed / rewards): must equal the fresh processes
    pol = copy.deepcopy(case)
    pol.pop("process", None)
    pol["domain"] = [[float(lo) * 3 - 7.5, float(hi) * 3 - 7.5 + 1.0] for lo, hi in case["domain"]]
    pol["reward"] = {"law": "large", "seed": 99}
    pol["rng"] = {"mode": "seed", "seed": 4242}
    pol["T"] = min(case["T"], 60)
    trace(pol)
    mine = dict(case)
    mine.pop("process", None)
    outs.append(trace(mine))
    a = outs[0]
    for k, b in enumerate(outs[1:], start=1):
        d = first_diff(a["points"], b["points"])
        if d or a["last"] != b["last"] or a["error"] != b["error"]:
            return Outcome(violation={"clause": "process-dependent", "msg": "%s differs from a fresh process: %r" % (
                "the run inside a worker that ran other instances before" if k == 3 else "the run under another PYTHONHASHSEED / heap layout", d),
                                      "round": d[0] if d else None}, classes=classes)
    if a["error"]:
        return Outcome(aborted="exception:" + a["error"].split("@")[0], classes=classes)
    return Outcome(nontrivial=case["T"] >= 20, classes=classes, rounds=3 * case["T"])


def check_case(case):
    if "schedule" in case:
        return check_interleave(case)
    if case.get("process"):
        return check_process(case)
    return check_repeat(case)


def simplify(case):
    if "schedule" in case:
        s = case["schedule"]
        for cut in (len(s) // 2, len(s) - 1):
            if 0 < cut < len(s):
                c = copy.deepcopy(case)
                c["schedule"] = s[:cut]
                yield c
        return
    T = case["T"]
    for t in (2, 5, 10, 20, T // 2, T - 1):
        if 1 <= t < T:
            c = copy.deepcopy(case)
            c["T"] = t
            yield c
    if len(case["domain"]) > 1:
        c = copy.deepcopy(case)
        c["domain"] = c["domain"][:1]
        yield c
    if case["partition"]["cls"] != "BinaryPartition":
        c = copy.deepcopy(case)
        c["partition"] = {"cls": "BinaryPartition"}
        yield c


LAWS = ["peak", "peakpos", "bump", "peak", "bump", "noise", "ties"]


@st.composite
def repeat_cases(draw, tier):
    quick = tier == "quick"
    c = draw(gen.run_case(T_max=150 if quick else 600, laws=LAWS, poo_ok_only=True, gpo_ok_only=True, script_prob=0.0,
                          T_min=5, n_range=(100, 300) if quick else (100, 1000)))
    k = draw(st.integers(0, 11))
    if k == 0:
        c["descending"] = draw(st.integers(1, 3))
    elif k == 1:
        c["ndarray_domain"] = True
        c.pop("alias_axes", None)
    return c


@st.composite
def twin_cases(draw, tier):
    """Two instances of the SAME class on the SAME partition class and the SAME domain list object, with
    independently drawn parameters and rewards, alternating for up to 150 rounds each: where state shared
    through a class attribute, a module global or a cache keyed by the arguments' identity shows."""
    name = draw(st.sampled_from(RNG_FREE_ALGOS + ["POO", "POO", "GPO", "PCT", "VPCT", "VROOM", "VROOM"]))
    d = 1 if name == "VROOM" else draw(st.integers(1, 2))  # VROOM: binary children only; its draws go through RngSlots
    dom = draw(gen.domains(max_d=d, min_d=d))
    pspec = draw(st.sampled_from([{"cls": "BinaryPartition"}, {"cls": "DimensionBinaryPartition"}])) if d == 1 else {"cls": "DimensionBinaryPartition"}
    out = {}
    for who in "AB":
        aspec = draw(gen.algo_spec(name, d, pspec, n_range=(100, 300), poo_ok_only=True, gpo_ok_only=True,
                                   base=None))
        rw = draw(gen.rewards(laws=["peak", "peakpos", "bump", "noise"], d=d, T=150, max_over=0))
        out[who] = {"algo": aspec, "partition": pspec, "domain": dom, "rng": {"mode": "seed", "seed": draw(st.integers(0, 999))},
                    "T": 0, "reward": rw}
    if name in ("POO", "GPO") and draw(st.booleans()):
        out["B"]["algo"]["base"] = out["A"]["algo"]["base"]
    T = draw(st.integers(40, 150))
    T = min(T, gen.budget_of(out["A"]["algo"]), gen.budget_of(out["B"]["algo"]))
    return {"A": out["A"], "B": out["B"], "schedule": "AB" * T, "share_domain": True}


@st.composite
def process_cases(draw):
    c = draw(gen.run_case(T_max=80, laws=LAWS, poo_ok_only=True, gpo_ok_only=True, script_prob=0.0, T_min=20))
    c["process"] = True
    return c


def large_budget_cases():
    """Declared budgets far above what the generated runs use (a code path switched on by size)."""
    base = {"partition": {"cls": "BinaryPartition"}, "domain": [[0.0, 1.0]], "rng": {"mode": "seed", "seed": 3},
            "reward": {"law": "peak", "seed": 4, "params": {"star": [0.3], "sigma": 0.2}}}
    out = []
    for aspec, T in (({"name": "VROOM", "params": {"n": 8200, "h_max": 14, "b": 1.0, "f_max": 1.0}}, 4),
                     ({"name": "VROOM", "params": {"n": 20000, "h_max": 100, "b": 1.0, "f_max": 1.0}}, 3),
                     ({"name": "StroquOOL", "params": {"n": 20000}}, 300), ({"name": "SequOOL", "params": {"n": 20000}}, 300),
                     ({"name": "SOO", "params": {"n": 20000, "h_max": 40}}, 300), ({"name": "StoSOO", "params": {"n": 20000, "k": None, "h_max": 40}}, 300),
                     ({"name": "DOO", "params": {"n": 20000}}, 300), ({"name": "T_HOO", "params": {"nu": 1.0, "rho": 0.5, "rounds": 10 ** 6}}, 300),
                     ({"name": "GPO", "base": "HCT", "params": {"numax": 1.0, "rhomax": 0.9, "rounds": 50000}}, 400),
                     ({"name": "POO", "base": "T_HOO", "params": {"numax": 1.0, "rhomax": 0.9, "rounds": 50000}}, 400)):
        c = dict(base)
        c["algo"] = aspec
        c["T"] = T
        out.append(c)
    return out


def run_shard(ctx):
    ctx.enumerate("large-budget", large_budget_cases(), check_case)
    quick = ctx.tier == "quick"
    ctx.drive("repeat", repeat_cases(ctx.tier), check_case, ctx.budget(2400, 30000))
    ctx.drive_machine("interleave", make_machine(ctx.col, "interleave"), ctx.budget(1600, 16000), steps=20 if quick else 40)
    ctx.drive("twins", twin_cases(ctx.tier), check_case, ctx.budget(640, 6000))
    ctx.drive("process", process_cases(), check_case, ctx.budget(96, 960))
