"""C10 - POO routes each round to one base learner and scores learners by true means."""
import copy
import math
import random

from hypothesis import strategies as st

from pbt import gen
from pbt.engine import Outcome, Violation
from pbt.harness import Session, algo_label

PROP = "C10"
RULE = (
    "subcheck 'real': POO over recording subclasses of T_HOO/HCT/VHCT x rho_max in [0.84, 0.995] x nu_max x horizon x partition x box "
    "x reward law, drawn by Hypothesis; subcheck 'schedule': POO with an O(1) stub learner, enumerated over a grid of rho_max values x "
    "base names, 3000 (thorough 8000) rounds each. Oracle per round: during POO.pull exactly one learner's pull runs and its result "
    "is returned; during POO.receive_reward exactly that learner's receive_reward runs once with that reward and no other learner is "
    "touched; the learner list only grows and earlier entries keep their identity; every learner was built with nu_max and a rho = "
    "rho_max^(2N/(2i+1)), N a power of two, 0 <= i < N, in (0, rho_max), pairwise distinct; after every round V_reward[j] equals the "
    "fsum mean of learner j's ledger (rel 1e-9) and Times[j] its length; get_last_point() asks exactly one learner, one of maximal "
    "score, and returns its proposal - at the end of the run and, in half of the cases, at Hypothesis-chosen rounds in between (the "
    "rounds that follow are judged as before). non-trivial = >= 3 learners, a complete round-robin pass over all learners, non-constant "
    "rewards; distinct = SHA-1 of the case."
)
ASSUMPTIONS = [
    "rho_max >= 0.84 so that POO starts (smaller values: open finding D9 of C01)",
    "scores compared with relative tolerance 1e-9 scaled by the largest |reward|",
]


def decode_rho(rho, rhomax):
    """(N, i) with rho == rhomax^(2N/(2i+1)) to rel 1e-12, N a power of two, 0 <= i < N."""
    e = math.log(rho) / math.log(rhomax)
    N = 2
    while N <= 2 ** 22:
        # e = 2N/(2i+1)  ->  i = (2N/e - 1)/2
        i = round((2 * N / e - 1) / 2)
        if 0 <= i < N:
            want = rhomax ** (2.0 * N / (2 * i + 1))
            if abs(want - rho) <= 1e-12 * want:
                return N, i
        N *= 2
    return None


class Judge:
    def __init__(self, numax, rhomax, base_name, rounds):
        self.numax, self.rhomax, self.base, self.rounds = numax, rhomax, base_name, rounds
        self.ledger = {}
        self.identity = []
        self.decoded = []
        self.served = []
        self.maxabs = 0.0
        self.full_pass = False
        self._run = []

    def after_round(self, t, logs, calls, point, reward, algo):
        pulls = [c for c in calls if c[0] == "pull"]
        recvs = [c for c in calls if c[0] == "receive"]
        if len(pulls) != 1:
            raise Violation("one-learner", "round %d: %d learner pulls during POO.pull" % (t, len(pulls)), t)
        j = pulls[0][1]
        if len(recvs) != 1 or recvs[0][1] != j:
            raise Violation("reward-routing", "round %d served by learner %d, reward delivered to %r" % (t, j, [c[1] for c in recvs]), t)
        lg = logs[j]
        if lg.pulls[-1][2] is not point:
            raise Violation("proposal-returned", "round %d: POO did not return the proposal of the learner it asked" % t, t)
        if not (lg.rewards[-1][1] == reward):
            raise Violation("reward-routing", "round %d: learner %d got %r, the reward was %r" % (t, j, lg.rewards[-1][1], reward), t)
        self.ledger.setdefault(j, []).append(reward)
        self.maxabs = max(self.maxabs, abs(float(reward)))
        # learner list only grows, identities stable
        va = list(algo.V_algo)
        if len(va) < len(self.identity) or any(a is not b for a, b in zip(va, self.identity)):
            raise Violation("learner-list", "the learner list shrank or an earlier learner was replaced", t)
        self.identity = va
        if len(va) != len(logs):
            raise Violation("learner-list", "%d learners constructed, %d listed" % (len(logs), len(va)), t)
        for lg2 in logs[len(self.decoded):]:
            kw = lg2.kwargs
            if kw.get("nu") != self.numax:
                raise Violation("learner-params", "learner %d built with nu=%r, nu_max=%r" % (lg2.index, kw.get("nu"), self.numax), t)
            rho = float(kw.get("rho"))
            if not (0 < rho < self.rhomax):
                raise Violation("learner-params", "learner %d built with rho=%r outside (0, rho_max=%r)" % (lg2.index, rho, self.rhomax), t)
            dec = decode_rho(rho, self.rhomax)
            if dec is None:
                raise Violation("learner-params", "learner %d: rho=%r is not rho_max^(2N/(2i+1)) for a power of two N and 0<=i<N" % (lg2.index, rho), t)
            if any(abs(rho - float(o.kwargs["rho"])) <= 1e-15 for o in logs[:lg2.index]):
                raise Violation("learner-params", "learner %d repeats the rho of an earlier learner (%r)" % (lg2.index, rho), t)
            self.decoded.append(dec)
        # scores
        V, Tm = list(algo.V_reward), list(algo.Times)
        if len(V) != len(logs) or len(Tm) != len(logs):
            raise Violation("scores", "%d learners, %d scores, %d counts" % (len(logs), len(V), len(Tm)), t)
        scale = max(1.0, self.maxabs)
        for k in range(len(logs)):
            led = self.ledger.get(k, [])
            if Tm[k] != len(led):
                raise Violation("count", "learner %d received %d rewards, Times says %r" % (k, len(led), Tm[k]), t)
            m = math.fsum(float(x) for x in led) / len(led) if led else 0.0
            if abs(float(V[k]) - m) > 1e-9 * scale:
                raise Violation("score-mean", "learner %d score %r, mean of its %d rewards %r" % (k, V[k], len(led), m), t)
        # round-robin pass detection
        if self._run and j == self._run[-1] + 1:
            self._run.append(j)
        else:
            self._run = [j] if j == 0 else []
        if self._run and len(self._run) == len(logs) and len(logs) >= 3:
            self.full_pass = True

    def last_point(self, T, logs, calls, lp):
        asked = [c for c in calls if c[0] == "pull"]
        if len(asked) != 1 or len(calls) != 1:
            raise Violation("recommend-routing", "get_last_point made learner calls %r" % (calls,), T)
        j = asked[0][1]
        if logs[j].pulls[-1][2] is not lp:
            raise Violation("recommend-routing", "get_last_point did not return the asked learner's proposal", T)
        scores = [math.fsum(float(x) for x in self.ledger.get(k, [0.0])) / max(1, len(self.ledger.get(k, []))) for k in range(len(logs))]
        if abs(scores[j] - max(scores)) > 1e-9 * max(1.0, self.maxabs):
            raise Violation("recommend-not-best", "get_last_point asked learner %d (score %r), best score %r" % (j, scores[j], max(scores)), T)


def check_real(case):
    a = case["algo"]
    p = a["params"]
    classes = ["algo:" + algo_label(a), "part:" + case["partition"]["cls"], "law:" + case["reward"].get("law", "noise")]
    T = case["T"]
    J = Judge(p["numax"], p["rhomax"], a["base"], p["rounds"])
    try:
        with Session(case, record_learners=True) as s:
            try:
                s.construct()
            except Exception as e:  # noqa: BLE001
                return Outcome(aborted="exception:" + type(e).__name__, classes=classes)
            queries = set(case.get("queries", []))
            for t in range(1, T + 1):
                if t in queries and t > 1:
                    # "at every moment ... get_last_point is the next proposal of a best-scored learner":
                    # query between rounds, judge the query, and keep judging the rounds that follow
                    n0 = len(s.learner_calls)
                    try:
                        lp = s.last_point()
                    except Exception as e:  # noqa: BLE001
                        return Outcome(aborted="last-point-exception:" + type(e).__name__, classes=classes, rounds=t - 1)
                    J.last_point(t - 1, s.learners, s.learner_calls[n0:], lp)
                n0 = len(s.learner_calls)
                try:
                    pt, r = s.step()
                except Exception as e:  # noqa: BLE001
                    return Outcome(aborted="exception:" + type(e).__name__, classes=classes, rounds=t - 1)
                J.after_round(t, s.learners, s.learner_calls[n0:], pt, r, s.algo)
            n0 = len(s.learner_calls)
            try:
                lp = s.last_point()
            except Exception as e:  # noqa: BLE001
                return Outcome(aborted="last-point-exception:" + type(e).__name__, classes=classes, rounds=T)
            J.last_point(T, s.learners, s.learner_calls[n0:], lp)
            nl = len(s.learners)
    except Violation as v:
        return Outcome(violation=v.as_dict(), classes=classes, rounds=v.round or 0)
    nonconst = len(set(float(x) for led in J.ledger.values() for x in led)) > 1
    if J.full_pass:
        classes.append("full-round-robin-pass")
    classes.append("learners:%d" % min(nl, 40))
    return Outcome(nontrivial=nl >= 3 and J.full_pass and nonconst, classes=classes, rounds=T)


class _Log:
    def __init__(self, index, kwargs):
        self.index, self.kwargs, self.pulls, self.rewards = index, kwargs, [], []


def check_stub(case):
    from PyXAB.algos.POO import POO

    rhomax, base, T = case["rhomax"], case["base"], case["T"]
    classes = ["stub:" + base]
    logs, calls, clock = [], [], [0, "pull"]

    class Stub:
        def __init__(self, nu=None, rho=None, rounds=None, domain=None, partition=None, **kw):
            kwargs = {"nu": nu, "rho": rho}
            if rounds is not None:
                kwargs["rounds"] = rounds
            self.log = _Log(len(logs), kwargs)
            logs.append(self.log)
            self.k = 0

        def pull(self, time):
            self.k += 1
            p = [float(self.log.index), float(self.k)]
            self.log.pulls.append((clock[0], clock[1], p))
            calls.append(("pull", self.log.index, clock[0], clock[1]))
            return p

        def receive_reward(self, time, reward):
            self.log.rewards.append((clock[0], reward))
            calls.append(("receive", self.log.index, clock[0], clock[1]))

    Stub.__name__ = base
    rng = random.Random(case.get("seed", 0))
    J = Judge(case.get("numax", 1.0), rhomax, base, case.get("rounds", T))
    try:
        algo = POO(numax=case.get("numax", 1.0), rhomax=rhomax, rounds=case.get("rounds", T), domain=[[0, 1]], partition=object, algo=Stub)
        for t in range(1, T + 1):
            clock[0], clock[1] = t, "pull"
            n0 = len(calls)
            pt = algo.pull(t)
            r = rng.random() - 0.3
            clock[1] = "receive"
            algo.receive_reward(t, r)
            J.after_round(t, logs, calls[n0:], pt, r, algo)
        clock[0], clock[1] = T + 1, "last"
        n0 = len(calls)
        lp = algo.get_last_point()
        J.last_point(T, logs, calls[n0:], lp)
    except Violation as v:
        return Outcome(violation=v.as_dict(), classes=classes, rounds=v.round or 0)
    except Exception as e:  # noqa: BLE001
        return Outcome(aborted="exception:" + type(e).__name__, classes=classes)
    classes.append("learners:%d" % min(len(logs), 40))
    return Outcome(nontrivial=len(logs) >= 3 and J.full_pass, classes=classes, rounds=T)


def check_case(case):
    return check_stub(case) if "rhomax" in case else check_real(case)


def stub_cases(tier):
    k, T = (192, 3000) if tier == "quick" else (400, 8000)
    out = []
    for j in range(k):
        rm = 0.84 + (0.999 - 0.84) * j / (k - 1)
        out.append({"rhomax": round(rm, 6), "base": ("T_HOO", "HCT", "VHCT")[j % 3], "T": T * 3 if j % 12 == 5 else T, "seed": j,
                    "numax": (1.0, 0.5, 2.0)[j % 3]})
    return out


def simplify(case):
    if "rhomax" in case:
        for t in (case["T"] // 2,):
            if t >= 1:
                c = copy.deepcopy(case)
                c["T"] = t
                yield c
        return
    T = case["T"]
    for t in (2, 5, 10, T // 2, T - 1):
        if 1 <= t < T:
            c = copy.deepcopy(case)
            c["T"] = t
            yield c
    if case["partition"]["cls"] != "BinaryPartition":
        c = copy.deepcopy(case)
        c["partition"] = {"cls": "BinaryPartition"}
        yield c
    if case["domain"] != [[0, 1]]:
        c = copy.deepcopy(case)
        c["domain"] = [[0, 1]]
        yield c


@st.composite
def real_cases(draw, tier):
    quick = tier == "quick"
    c = draw(gen.run_case(names=["POO"], poo_ok_only=True, n_range=(100, 600) if quick else (100, 3000),
                          script_prob=0.2, full_T_prob=0.5, T_min=20, T_max=600 if quick else 3000,
                          laws=["noise", "peak", "negative", "ties", "large", "bump", "ramp", "const"]))
    if draw(st.booleans()):
        c["queries"] = sorted(set(draw(st.lists(st.integers(2, max(2, c["T"])), min_size=1, max_size=12))))
    return c


def run_shard(ctx):
    quick = ctx.tier == "quick"
    cases = stub_cases(ctx.tier)
    ctx.enumerate("schedule", cases, check_case,
                  exhaustive_note="POO schedule with stub learners on a grid of %d rho_max values in [0.84, 0.999], %d rounds each"
                  % (len(cases), cases[0]["T"]))
    ctx.drive("real", real_cases(ctx.tier), check_case, ctx.budget(3000, 20000))
