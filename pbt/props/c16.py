"""C16 - algorithms see the domain only through the partition (affine equivariance)."""
import copy
import math

from hypothesis import strategies as st

from pbt import gen
from pbt.engine import Outcome
from pbt.harness import ALGOS, KARY, Session, algo_label

PROP = "C16"
RULE = (
    "cases = all 14 algorithms x partition x seed / injected split outcomes x reward law x an affine map x -> a x + t (a > 0 one factor, t a vector: the same shift on every axis or, half of the time in d >= 2, a different one per axis). The base run "
    "is executed on the box D; its reward sequence is then fed, by index, to a second run on the image box a D + t with the same RNG "
    "outcomes (so both runs see the same history). Exact class: a = 2^k, k in -20..20 (exact for every partition and every operation "
    "the code performs) and, for midpoint partitions on boxes with small dyadic end points, translations by dyadic t (all midpoints "
    "stay representable): the image of every produced point is first verified to be exactly invertible ((y - t)/a == x) and then "
    "x'_i == a x_i + t is required bit for bit, for every round and for the recommendation. Tolerance class: arbitrary a > 0 and t, "
    "compared to 1e-9 of the image box width plus 1e-12 of its coordinate magnitude (rounding scales with the latter), only for algorithms whose decisions are coordinate-free (all but Zooming and DOO with "
    "its default delta). DOO with its default diameter function is checked under translations only (the documented exception), with a "
    "user delta(h) under all maps. non-trivial = >= 20 rounds, >= 2 expansions, map not the identity; distinct = SHA-1 of the case."
)
ASSUMPTIONS = [
    "the second run receives the first run's rewards by index: a divergence of the trajectories is itself the violation",
    "in the tolerance class a point whose image is not exactly invertible is compared to rel. 1e-9 of the image box width",
    "a crash common to both runs is C01's business (aborted)",
]

MIDPOINT = ("BinaryPartition", "DimensionBinaryPartition", "KaryPartition")


def sig_bits(v):
    """Number of significant mantissa bits of a double (0 for 0.0)."""
    if v == 0 or not math.isfinite(v):
        return 0
    m, _ = math.frexp(abs(v))
    n = int(m * (1 << 53))
    return n.bit_length() - ((n & -n).bit_length() - 1)


def name_compares_coordinates(case):
    a = case["algo"]
    return a["name"] == "Zooming" or (a["name"] == "DOO" and "delta" not in a["params"])


def tvec(t, d):
    """A translation is a vector: one component per axis (a scalar in older replay files means the same shift on every axis)."""
    return [float(v) for v in t] if isinstance(t, list) else [float(t)] * d


def image_domain(dom, a, t):
    tv = tvec(t, len(dom))
    return [[a * float(lo) + tv[k], a * float(hi) + tv[k]] for k, (lo, hi) in enumerate(dom)]


def run(case, rewards=None):
    out = {"points": [], "rewards": [], "last": None, "error": None, "splits": 0, "last_error": None}
    c = case
    if rewards is not None:
        c = dict(case)
        c["reward"] = {"law": "explicit", "params": {"values": rewards}, "npfloat": case["reward"].get("npfloat", False),
                       "inttype": case["reward"].get("inttype", False)}
    with Session(c) as s:
        try:
            s.construct()
            for _ in range(c["T"]):
                pt, r = s.step()
                out["points"].append(list(pt) if isinstance(pt, list) else pt)
                out["rewards"].append(float(r))
            try:
                lp = s.last_point()
                out["last"] = list(lp) if isinstance(lp, list) else lp
            except Exception as e:  # noqa: BLE001 - e.g. open finding D11: compared as an outcome
                out["last_error"] = type(e).__name__
        except Exception as e:  # noqa: BLE001
            out["error"] = "%s@%d" % (type(e).__name__, len(out["points"]) + 1)
        out["splits"] = sum(1 for ev in s.split_log if ev["round"] >= 1)
        out["maxdepth"] = max([rec.part.get_depth() for rec in s.recs] + [0])
    return out


def check_case(case):
    a = case["map"]["a"]
    tv = tvec(case["map"]["t"], len(case["domain"]))
    moved = any(v != 0 for v in tv)
    exact = case["map"]["class"] == "exact"
    classes = ["algo:" + algo_label(case["algo"]), "part:" + case["partition"]["cls"], "class:" + case["map"]["class"],
               "map:" + ("scale" if not moved else ("translate" if a == 1 else "both"))]
    if len(set(tv)) > 1:
        classes.append("translation-differs-per-axis")
    base = dict(case)
    base.pop("map")
    r1 = run(base)
    img = dict(base)
    img["domain"] = image_domain(case["domain"], a, tv)
    if any(not (lo < hi) or not math.isfinite(lo) or not math.isfinite(hi) for lo, hi in img["domain"]):
        return Outcome(aborted="degenerate-image", classes=classes)
    r2 = run(img, rewards=r1["rewards"] + [0.0] * (case["T"] - len(r1["rewards"])))
    if exact and moved:
        # a translation is exact only while every cell boundary of both trees is representable: bits for the
        # integer part of the larger coordinates + one bit per halving + the bits of the box width must fit
        per_level = math.log2(case["partition"].get("K", 2))
        mag = max([abs(float(v)) for iv in case["domain"] + img["domain"] for v in iv] + [1.0])
        wmin = min(float(hi) - float(lo) for lo, hi in case["domain"])
        need = math.ceil(math.log2(mag)) + max(r1["maxdepth"], r2["maxdepth"]) * per_level - math.floor(math.log2(wmin)) + 3
        if need > 52:
            if name_compares_coordinates(case):
                return Outcome(aborted="translation-not-exact-at-this-depth", classes=classes)
            exact = False
            classes.append("deep-translation-compared-with-tolerance")
    widths = [hi - lo for lo, hi in img["domain"]]
    mags = [max(abs(lo), abs(hi)) for lo, hi in img["domain"]]  # rounding scales with the coordinates' magnitude
    n = min(len(r1["points"]), len(r2["points"]))
    seqs = list(zip(r1["points"][:n], r2["points"][:n], range(1, n + 1)))
    if r1["last"] is not None and r2["last"] is not None:
        seqs.append((r1["last"], r2["last"], case["T"] + 1))
    n_exact = 0
    for x, y, rnd in seqs:
        if not isinstance(x, list) or not isinstance(y, list) or len(x) != len(y):
            return Outcome(violation={"clause": "equivariance", "msg": "round %d: %r vs %r" % (rnd, x, y), "round": rnd}, classes=classes)
        for k, (xi, yi) in enumerate(zip(x, y)):
            t = tv[k] if k < len(tv) else 0.0
            want = a * float(xi) + t
            invertible = (want - t) / a == float(xi)
            if t != 0 and (sig_bits(float(xi)) > 44 or sig_bits(want) > 44):
                # a translation is exact only while the coordinates have spare mantissa bits: beyond
                # ~45 halvings of a small dyadic box the midpoints round differently in the two runs
                invertible = False
            if abs(float(xi)) < 1e-250 or abs(want) < 1e-250:
                # gradual underflow (also underflow to exactly 0 in one of the two runs): a power-of-two
                # scaling is no longer exact there; such points are compared with the tolerance
                invertible = False
            if exact and invertible:
                n_exact += 1
                ok = float(yi) == want
            else:
                ok = abs(float(yi) - want) <= 1e-9 * widths[k] + 1e-12 * mags[k]
            if not ok:
                return Outcome(violation={"clause": "equivariance", "msg": "%s coordinate %d: base %r maps to %r, image run gave %r (a=%r, t=%r)" % (
                    "recommendation" if rnd == case["T"] + 1 else "round %d" % rnd, k, xi, want, yi, a, tv), "round": rnd}, classes=classes)
    if r1.get("last_error") != r2.get("last_error"):
        return Outcome(violation={"clause": "equivariance", "msg": "get_last_point: %r on the base box, %r on the image" % (
            r1.get("last_error"), r2.get("last_error")), "round": case["T"] + 1}, classes=classes)
    if r1["error"] != r2["error"] or len(r1["points"]) != len(r2["points"]):
        return Outcome(violation={"clause": "equivariance", "msg": "runs end differently: %r after %d rounds vs %r after %d" % (
            r1["error"], len(r1["points"]), r2["error"], len(r2["points"])), "round": n + 1}, classes=classes)
    if r1["error"]:
        return Outcome(aborted="exception:" + r1["error"].split("@")[0], classes=classes)
    if exact and n_exact:
        classes.append("compared-bit-for-bit")
    ident = a == 1 and not moved
    return Outcome(nontrivial=case["T"] >= 20 and r1["splits"] >= 2 and not ident, classes=classes, rounds=2 * case["T"])


def _bias_zooming(draw, aspec):
    """Refinements (where Zooming compares coordinates) need nu rho^depth to meet the radius early."""
    if aspec["name"] == "Zooming":
        aspec["params"]["nu"] = draw(st.one_of(st.floats(0.5, 10.0), gen.loguniform(0.05, 10.0)))
        aspec["params"]["rho"] = draw(st.one_of(st.floats(0.7, 0.99), st.floats(0.05, 0.99)))


@st.composite
def shift(draw, one, d):
    """A translation vector: the same amount on every axis, or (half of the time when d >= 2) one amount per
    axis, some of them zero."""
    if d >= 2 and draw(st.booleans()):
        return [0.0 if draw(st.integers(0, 3)) == 0 else draw(one) for _ in range(d)]
    return [draw(one)] * d


@st.composite
def cases(draw, tier):
    quick = tier == "quick"
    kind = draw(st.sampled_from(["scale", "scale", "translate", "tol"]))
    # Zooming (containment test) and DOO (default delta) are the two places where coordinates are
    # compared at all - the property's own anchors - so they get extra weight
    name = draw(st.sampled_from(ALGOS + ("Zooming", "Zooming", "Zooming", "DOO")))
    if kind == "translate":
        # exact translations: midpoint partitions, small dyadic boxes, dyadic t, bounded depth
        d = draw(st.integers(1, 2))
        dom = []
        for _ in range(d):
            lo = draw(st.integers(-8, 8))
            w = draw(st.sampled_from([1, 2, 4, 8]))
            dom.append([float(lo), float(lo + w)] if draw(st.booleans()) else [lo, lo + w])
        cls = draw(st.sampled_from(MIDPOINT))
        pspec = {"cls": cls}
        if cls in KARY:
            pspec["K"] = draw(st.sampled_from([2, 4]))
        if name == "VROOM":
            name = "SOO"
        aspec = draw(gen.algo_spec(name, d, pspec, n_range=(100, 300), poo_ok_only=True, gpo_ok_only=True))
        _bias_zooming(draw, aspec)
        T = draw(st.integers(20, min(gen.budget_of(aspec), 250)))
        if name == "DOO" and "delta" not in aspec["params"]:
            T = min(T, 80)  # keeps DOO's tree shallower than the mantissa: its default delta compares widths
        case = {"algo": aspec, "partition": pspec, "domain": dom, "rng": draw(gen.rngs(script_prob=0.3)), "T": T,
                "reward": draw(gen.rewards(laws=["peak", "bump", "noise", "ties", "negative"], d=d, T=T))}
        one = st.builds(lambda i, q: float(i * q),
                        st.one_of(st.integers(-2 ** 20, 2 ** 20), st.integers(-2 ** 30, 2 ** 30),
                                  st.sampled_from([2 ** 22, 2 ** 24, 2 ** 26, -2 ** 26, 2 ** 29])),
                        st.sampled_from([1.0, 0.5, 0.25, 1.0]))
        case["map"] = {"a": 1.0, "t": draw(shift(one, d)), "class": "exact"}
        return case
    case = draw(gen.run_case(names=[name], T_max=150 if quick else 400, n_range=(100, 300) if quick else (100, 600),
                             laws=["peak", "bump", "noise", "ties", "negative", "const"], poo_ok_only=True, gpo_ok_only=True,
                             script_prob=0.3, T_min=20))
    _bias_zooming(draw, case["algo"])
    doo_default = name == "DOO" and "delta" not in case["algo"]["params"]
    if kind == "scale" or name in ("Zooming",) or doo_default:
        if doo_default:
            case["map"] = {"a": 1.0, "t": 0.0, "class": "exact"}  # scaling is the documented exception
            # an exact translation needs a friendly box: use the unit box and an integer shift
            case["domain"] = [[0.0, 1.0] for _ in case["domain"]]
            case["T"] = min(case["T"], 80)
            if case["partition"]["cls"] in MIDPOINT and case["partition"].get("K", 2) in (2, 4):
                case["map"]["t"] = draw(shift(st.integers(-1000, 1000).map(float), len(case["domain"])))
        else:
            # scalings far beyond the unit box as well: an absolute threshold (an epsilon, a unit-box
            # assumption) shows only when the box is that small or that large
            k = draw(st.one_of(st.integers(-20, 20), st.integers(-60, 60), st.sampled_from([-52, -50, -48, -46, -44, 48, 52]),
                                 st.integers(-1000, 900), st.sampled_from([-545, -560, -700, 600])))
            case["map"] = {"a": 2.0 ** k, "t": 0.0, "class": "exact"}
    else:
        case["map"] = {"a": draw(st.floats(0.01, 100.0)), "t": draw(shift(st.floats(-1000.0, 1000.0), len(case["domain"]))), "class": "tol"}
    return case


def simplify(case):
    T = case["T"]
    for t in (2, 5, 10, 20, T // 2, T - 1):
        if 1 <= t < T:
            c = copy.deepcopy(case)
            c["T"] = t
            yield c
    if len(case["domain"]) > 1 and case["partition"]["cls"] != "DimensionBinaryPartition":
        c = copy.deepcopy(case)
        c["domain"] = c["domain"][:1]
        if isinstance(c["map"]["t"], list):
            c["map"]["t"] = c["map"]["t"][:1]
        yield c
    if case["rng"].get("mode") == "script":
        c = copy.deepcopy(case)
        c["rng"] = {"mode": "seed", "seed": 0}
        yield c


def run_shard(ctx):
    ctx.drive("affine", cases(ctx.tier), check_case, ctx.budget(8000, 60000))
