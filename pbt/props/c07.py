"""C07 - simple-regret algorithms recommend their best evaluated candidate."""
import copy
import math

from hypothesis import strategies as st

from pbt import gen
from pbt.engine import Outcome, Violation
from pbt.harness import Unattributable, Session, algo_label, leaves

PROP = "C07"
RULE = (
    "cases = {DOO, SOO, SequOOL, StoSOO, StroquOOL, POO x3, GPO x3, PCT, VPCT} x partition x box x budget x reward laws weighted "
    "towards all-negative, non-positive with ties, constant and tied rewards x T. The harness keeps its own ledger of (cell, point, "
    "reward); oracle on get_last_point(): DOO/SOO/SequOOL - the recommended cell was evaluated as a search point and its reward "
    "equals the maximum over all evaluated search points; StoSOO - a deepest-layer cell whose ledger mean (0 if unevaluated) is "
    "maximal in that layer; StroquOOL - among candidates re-evaluated in validation, one of highest validation mean; POO - exactly one "
    "learner is asked, it has a maximal ledger score, its proposal is returned; GPO/PCT/VPCT - the validated point of a phase whose "
    "ledger validation mean is maximal. In a third of the cases get_last_point() is also queried at Hypothesis-chosen rounds in between "
    "and judged against the ledger of that moment (every prefix of a run is a run). non-trivial = all rewards <= 0, or >= 2 candidates tied at the maximum, or an unevaluated cell "
    "present at the end; distinct = SHA-1 of the case."
)
ASSUMPTIONS = [
    "recommendation queries that hit the open findings D11a/D11b (no candidate yet) are outside this property and counted as aborted",
    "scores/means compared with relative tolerance 1e-9",
    "GPO validation rounds are located with the reference schedule N, L (checked in its own right by C09)",
]


def close(a, b, scale=1.0):
    return abs(float(a) - float(b)) <= 1e-9 * max(1.0, scale)


def fmean(xs):
    return math.fsum(float(x) for x in xs) / len(xs)


def check_case(case):
    a = case["algo"]
    name = a["name"]
    classes = ["algo:" + algo_label(a), "part:" + case["partition"]["cls"], "law:" + case["reward"].get("law", "noise")]
    wrapper = name in ("POO", "GPO", "PCT", "VPCT")
    evals = {}  # id(cell) -> [rewards]
    cells = {}
    order = []
    all_rewards = []
    val = {}  # StroquOOL: id(cell) -> validation rewards
    try:
        with Session(case, record_learners=wrapper) as s:
            try:
                s.construct()
            except Exception as e:  # noqa: BLE001
                return Outcome(aborted="exception:" + type(e).__name__, classes=classes)
            T = case["T"]
            gpo = None
            if name in ("GPO", "PCT", "VPCT"):
                N = gen.gpo_N(a["params"]["rounds"], a["params"]["rhomax"])
                Lh = a["params"]["rounds"] // (2 * N)
                gpo = {"N": N, "L": Lh, "phases": []}  # each: dict(point=, rewards=[])
            learner_rewards = {}
            def judge(T):
                ncalls = len(s.learner_calls)
                try:
                    lp = s.last_point()
                except Exception as e:  # noqa: BLE001 - D11 or a crash: C01's business
                    return ("aborted", Outcome(aborted="last-point-exception:" + type(e).__name__, classes=classes, rounds=T))
                rc = s.cell_of(lp)
                nt_allneg = all(float(x) <= 0 for x in all_rewards)
                tied = False
                uneval = False
                if name in ("DOO", "SOO", "SequOOL"):
                    if not evals:
                        return ("aborted", Outcome(aborted="no-search-point", classes=classes, rounds=T))
                    rew = {k: (v[0] if name == "SequOOL" else v[-1]) for k, v in evals.items()}
                    best = max(rew.values())
                    if rc is None:
                        cand = [cells[k] for k in rew if list(cells[k].get_cpoint()) == list(lp)]
                        rc = cand[0] if cand else None
                    if rc is None or id(rc) not in rew:
                        raise Violation("recommend-unevaluated", "%s recommends %r, which was never evaluated as a search point "
                                        "(best evaluated reward %r)" % (name, lp, best), T)
                    if not rew[id(rc)] == best:
                        raise Violation("recommend-not-best", "%s recommends a cell with reward %r, best evaluated reward is %r" % (name, rew[id(rc)], best), T)
                    tied = sum(1 for v in rew.values() if v == best) >= 2
                    part = s.main_partition()
                    uneval = any(id(l) not in rew for l in leaves(part.get_root()))
                elif name == "StoSOO":
                    part = s.main_partition()
                    layer = part.get_node_list()[part.get_depth()]
                    means = {id(n): (fmean(evals[id(n)]) if id(n) in evals else 0.0) for n in layer}
                    best = max(means.values())
                    if rc is None or id(rc) not in means:
                        raise Violation("recommend-layer", "StoSOO recommends a point that is not a deepest-level cell", T)
                    scale = max([abs(float(x)) for x in all_rewards] + [1.0])
                    if not close(means[id(rc)], best, scale):
                        raise Violation("recommend-not-best", "StoSOO recommends a cell of mean %r, deepest-level best is %r" % (means[id(rc)], best), T)
                    tied = sum(1 for v in means.values() if v == best) >= 2
                    uneval = any(id(n) not in evals for n in layer)
                elif name == "StroquOOL":
                    if not val:
                        return ("aborted", Outcome(aborted="no-validation-yet", classes=classes, rounds=T))
                    vm = {k: fmean(v) for k, v in val.items()}
                    best = max(vm.values())
                    if rc is None or id(rc) not in vm:
                        raise Violation("recommend-unevaluated", "StroquOOL recommends a cell that was not re-evaluated in validation", T)
                    scale = max([abs(float(x)) for x in all_rewards] + [1.0])
                    if not close(vm[id(rc)], best, scale):
                        raise Violation("recommend-not-best", "StroquOOL recommends validation mean %r, best is %r" % (vm[id(rc)], best), T)
                    tied = sum(1 for v in vm.values() if v == best) >= 2
                elif name == "POO":
                    calls = s.learner_calls[ncalls:]
                    asked = [c for c in calls if c[0] == "pull"]
                    if len(asked) != 1 or [c for c in calls if c[0] != "pull"]:
                        raise Violation("recommend-routing", "get_last_point made learner calls %r" % (calls,), T)
                    j = asked[0][1]
                    if s.learners[j].pulls[-1][2] is not lp:
                        raise Violation("recommend-routing", "the returned point is not the asked learner's proposal", T)
                    scores = {k: fmean(v) for k, v in learner_rewards.items()}
                    for lg in s.learners:
                        scores.setdefault(lg.index, 0.0)
                    best = max(scores.values())
                    scale = max([abs(float(x)) for x in all_rewards] + [1.0])
                    if not close(scores[j], best, scale):
                        raise Violation("recommend-not-best", "POO asked learner %d of score %r, best score is %r" % (j, scores[j], best), T)
                    tied = sum(1 for v in scores.values() if v == best) >= 2
                else:
                    ph = [p for p in gpo["phases"] if p["rewards"]]
                    if not ph:
                        return ("aborted", Outcome(aborted="no-validation-yet", classes=classes, rounds=T))
                    sc = [fmean(p["rewards"]) for p in ph]
                    best = max(sc)
                    hit = [k for k, p in enumerate(ph) if p["point"] is lp or list(p["point"]) == list(lp)]
                    if not hit:
                        raise Violation("recommend-unevaluated", "%s recommends %r, which is not a validated point" % (name, lp), T)
                    scale = max([abs(float(x)) for x in all_rewards] + [1.0])
                    if not any(close(sc[k], best, scale) for k in hit):
                        raise Violation("recommend-not-best", "%s recommends the validated point of score %r, best score is %r" % (
                            name, [sc[k] for k in hit], best), T)
                    tied = sum(1 for v in sc if v == best) >= 2
                return ("ok", nt_allneg, tied, uneval)

            queries = set(case.get("queries", []))
            any_allneg = any_tied = any_uneval = False
            for t in range(1, T + 1):
                if t in queries and t > 1:
                    res = judge(t - 1)
                    if res[0] == "ok":
                        any_allneg, any_tied, any_uneval = any_allneg or res[1], any_tied or res[2], any_uneval or res[3]
                ncalls = len(s.learner_calls)
                try:
                    pt = s.pull()
                    search_point = True
                    if name == "SequOOL":
                        search_point = s.algo.curr_node is not s.algo.partition.get_root()
                    in_validation = name == "StroquOOL" and bool(s.algo.candidate) and not s.algo.end
                    finished = name == "StroquOOL" and s.algo.end
                    r = s.reward_for(pt)
                    s.receive(r)
                except Exception as e:  # noqa: BLE001
                    return Outcome(aborted="exception:" + type(e).__name__, classes=classes, rounds=t - 1)
                all_rewards.append(r)
                cell = s.cell_of(pt)
                if wrapper:
                    calls = s.learner_calls[ncalls:]
                    pulls = [c for c in calls if c[0] == "pull"]
                    if pulls:
                        learner_rewards.setdefault(pulls[0][1], []).append(r)
                    if gpo is not None:
                        pos = (t - 1) % (2 * gpo["L"]) if gpo["L"] else 0
                        ph = (t - 1) // (2 * gpo["L"]) if gpo["L"] else 0
                        if gpo["L"] and ph < gpo["N"] and pos >= gpo["L"]:
                            if pos == gpo["L"]:
                                gpo["phases"].append({"point": pt, "rewards": []})
                            if gpo["phases"]:
                                gpo["phases"][-1]["rewards"].append(r)
                    continue
                if cell is None:
                    continue
                if finished:
                    continue
                if in_validation:
                    val.setdefault(id(cell), []).append(r)
                    cells[id(cell)] = cell
                elif search_point:
                    evals.setdefault(id(cell), []).append(r)
                    cells[id(cell)] = cell
                    order.append(cell)
            res = judge(T)
            if res[0] == "aborted":
                return res[1]
            _, nt_allneg, tied, uneval = res
            nt_allneg = nt_allneg or any_allneg
            tied = tied or any_tied
            uneval = uneval or any_uneval
            if nt_allneg:
                classes.append("all-rewards<=0")
            if tied:
                classes.append("tie-at-max")
            if uneval:
                classes.append("unevaluated-cell-present")
            return Outcome(nontrivial=nt_allneg or tied or uneval, classes=classes, rounds=T)
    except Unattributable:
        return Outcome(aborted="point-matches-several-cells", classes=classes)
    except Violation as v:
        return Outcome(violation=v.as_dict(), classes=classes, rounds=v.round or 0)


def simplify(case):
    T = case["T"]
    for t in (1, 2, 3, 5, 10, 20, T // 2, T - 1):
        if 1 <= t < T:
            c = copy.deepcopy(case)
            c["T"] = t
            yield c
    if len(case["domain"]) > 1:
        c = copy.deepcopy(case)
        c["domain"] = c["domain"][:1]
        yield c
    if case["domain"] != [[0, 1]] * len(case["domain"]):
        c = copy.deepcopy(case)
        c["domain"] = [[0, 1] for _ in case["domain"]]
        yield c
    if case["partition"]["cls"] != "BinaryPartition":
        c = copy.deepcopy(case)
        c["partition"] = {"cls": "BinaryPartition"}
        yield c


LAWS = ["negative", "negative", "nonpos_ties", "nonpos_ties", "const", "ties", "noise", "peak", "large", "alternating", "neartie", "neartie", "neg_then_zero", "neg_then_zero"]
NAMES = ["DOO", "DOO", "SOO", "SequOOL", "StoSOO", "StroquOOL", "POO", "GPO", "PCT", "VPCT"]


@st.composite
def cases(draw, tier):
    quick = tier == "quick"
    c = draw(gen.run_case(names=NAMES, laws=LAWS, poo_ok_only=True, gpo_ok_only=True,
                          n_range=(100, 300) if quick else (100, 1500), script_prob=0.25,
                          full_T_prob=0.5, T_min=3))
    if draw(st.integers(0, 2)) == 0:
        # "after a run": every prefix of the rounds is a run - query in between as well
        c["queries"] = sorted(set(draw(st.lists(st.integers(2, max(2, c["T"])), min_size=1, max_size=10))))
    return c


@st.composite
def stroquool_long(draw):
    """StroquOOL with budgets large enough for several candidates (h_max >= 8 needs n >~ 1350), run to the end."""
    c = draw(gen.run_case(names=["StroquOOL"], laws=["noise", "twolevel", "negative", "peakpos", "ties"], n_range=(600, 2200),
                          script_prob=0.2, full_T_prob=1.0, T_min=3))
    c["T"] = c["algo"]["params"]["n"]
    return c


def run_shard(ctx):
    ctx.drive("recommend", cases(ctx.tier), check_case, ctx.budget(12000, 80000))
    ctx.drive("stroquool-long", stroquool_long(), check_case, ctx.budget(320, 4000))
