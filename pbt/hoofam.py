"""Shared runner for C05 (optimistic index / path rule) and C06 (growth rule) on
T_HOO, HCT and VHCT.  Every relation is re-derived from the raw history after each round."""
import copy
import math

from pbt.engine import Outcome, Violation
from pbt.harness import Unattributable, Session, ancestors, iter_tree
from pbt.ref import hoo as R

REL = 1e-9


def close(a, b):
    a, b = float(a), float(b)
    if math.isinf(a) or math.isinf(b):
        return a == b
    return abs(a - b) <= REL * max(1.0, abs(a), abs(b))


def lab(n):
    return "(%d,%d)" % (n.get_depth(), n.get_index())


def u_ref(name, led, p, h, tp):
    if name == "T_HOO":
        return R.u_thoo(led, p, h)
    if name == "HCT":
        return R.u_hct(led, p, h, tp)
    return R.u_vhct(led, p, h, tp)


def tau_range(name, p, node, led, tp, V=None):
    h = node.get_depth()
    if h == 0:
        return (0, 0)
    if name == "HCT":
        return R.ceil_range(R.tau_arg_hct(p, h, tp))
    if V is None:
        V = R.variance(led) if led else 1e-3
    return R.ceil_range(R.tau_arg_vhct(p, h, V, tp))


def run(case, prop):
    a = case["algo"]
    name, p = a["name"], a["params"]
    classes = ["algo:" + name, "part:" + case["partition"]["cls"], "law:" + case["reward"].get("law", "noise"),
               "d:%d" % len(case["domain"])]
    C5, C6 = prop == "C05", prop == "C06"
    led = {}
    lastpull = {}
    nexp = 0
    not_expanded = 0
    stopped_internal = 0
    rich_steps = 0
    refreshes = 0

    EMPTY = []

    def L(n):
        return led.get(id(n), EMPTY)

    # The code caps delta~ at 1/2 in the thresholds and at 1 in the U-values; the published rule has no cap
    # issue once c1*delta/t+ <= 1/2.  Rounds (and stored values) that involve a smaller t+ are not judged.
    t0 = 1
    if name in ("HCT", "VHCT"):
        while R.c1(p["nu"], p["rho"]) * p["delta"] / t0 > 0.5:
            t0 *= 2
    sparse = bool(case.get("sparse"))  # long runs: the all-cells rules only around powers of two and every 250th round
    prevU = {}
    prev_round = -1

    R.reset_cache()
    try:
        with Session(case) as s:
            try:
                s.construct()
            except Exception as e:  # noqa: BLE001
                return Outcome(aborted="exception:" + type(e).__name__, classes=classes)
            part = s.main_partition()
            root = part.get_root()
            if C6:
                if len(s.split_log) != 1 or s.split_log[0]["parent"] is not root:
                    raise Violation("ctor-split", "the root must be split exactly once at construction (%d splits)" % len(s.split_log), 0)
                for c in root.get_children():
                    if c.get_visited_times() != 0 or c.get_u_value() != math.inf or c.get_b_value() != math.inf:
                        raise Violation("new-cell-state", "a cell created at construction has pulls/U/B %r/%r/%r" % (
                            c.get_visited_times(), c.get_u_value(), c.get_b_value()), 0)
            bound_lo = bound_hi = None
            if name == "T_HOO":
                bound_lo, bound_hi = R.thoo_depth_bound_range(p)
            T = case["T"]
            for t in range(1, T + 1):
                nsp = len(s.split_log)
                try:
                    pt = s.pull()
                except Exception as e:  # noqa: BLE001
                    return Outcome(aborted="exception:" + type(e).__name__, classes=classes, rounds=t - 1)
                cell = s.cell_of(pt)
                if cell is None or s.rec_of(pt).part is not part:
                    raise Violation("point-identity", "the returned point is not the representative of a cell of the tree", t)
                # -------------------------------------------------- C05 (c): path rule
                path = [cell] + ancestors(cell)
                path.reverse()
                if C5:
                    if path[0] is not root:
                        raise Violation("path", "the pulled cell is not reachable from the root", t)
                    for par, ch in zip(path, path[1:]):
                        sib = par.get_children()
                        if sib is None or not any(c is ch for c in sib):
                            raise Violation("path", "%s is not a child of %s" % (lab(ch), lab(par)), t)
                        bs = [c.get_b_value() for c in sib]
                        if not ch.get_b_value() >= max(bs):
                            raise Violation("path-max-B", "step %s -> %s: B=%r but siblings have B=%r" % (lab(par), lab(ch), ch.get_b_value(), bs), t)
                        fin = set(b for b in bs if math.isfinite(b))
                        if len(fin) >= 2:
                            rich_steps += 1
                    if name == "T_HOO":
                        if cell.get_children() is not None:
                            raise Violation("path-stop", "T-HOO pulled the internal cell %s" % lab(cell), t)
                    else:
                        cands = [R.tplus(t)] + ([R.tplus(t - 1)] if t >= 2 else [])
                        ok = min(cands) < t0  # a cap may be active: not judged
                        if ok:
                            cands = []
                        why = ""
                        for tp in cands:
                            good = True
                            for anc in path[:-1]:
                                lo, hi = tau_range(name, p, anc, L(anc), tp)
                                if not len(L(anc)) >= lo:
                                    good = False
                                    why = "ancestor %s has %d pulls < tau in [%d,%d] (t+=%d)" % (lab(anc), len(L(anc)), lo, hi, tp)
                                    break
                            if good and cell.get_children() is not None:
                                lo, hi = tau_range(name, p, cell, L(cell), tp)
                                if not len(L(cell)) < hi:
                                    good = False
                                    why = "internal cell %s has %d pulls >= tau in [%d,%d] (t+=%d) but the search stopped there" % (
                                        lab(cell), len(L(cell)), lo, hi, tp)
                            if good:
                                ok = True
                                break
                        if not ok:
                            raise Violation("path-threshold", why, t)
                if cell.get_children() is not None:
                    stopped_internal += 1
                was_leaf = cell.get_children() is None
                V_before = R.variance(L(cell)) if (name == "VHCT" and L(cell)) else 1e-3
                r = s.reward_for(pt)
                try:
                    s.receive(r)
                except Exception as e:  # noqa: BLE001
                    return Outcome(aborted="exception:" + type(e).__name__, classes=classes, rounds=t - 1)
                for n in ([cell] + ancestors(cell) if name == "T_HOO" else [cell]):
                    led.setdefault(id(n), []).append(r)
                lastpull[id(cell)] = t
                if t >= 2 and R.tplus(t) == t:
                    refreshes += 1
                # -------------------------------------------------- C06: growth
                splits = s.split_log[nsp:]
                if C6:
                    if len(splits) > 1:
                        raise Violation("one-expansion", "%d expansions in one round" % len(splits), t)
                    for ev in splits:
                        if ev["parent"] is not cell:
                            raise Violation("expansion-site", "expanded %s, pulled %s" % (lab(ev["parent"]), lab(cell)), t)
                        if ev["prev_children"] is not None:
                            raise Violation("expansion-of-internal", "the internal cell %s was split again" % lab(cell), t)
                        for c in ev["children"]:
                            if c.get_visited_times() != 0 or c.get_u_value() != math.inf or c.get_b_value() != math.inf:
                                raise Violation("new-cell-state", "a new cell starts with pulls/U/B %r/%r/%r" % (
                                    c.get_visited_times(), c.get_u_value(), c.get_b_value()), t)
                    expanded = len(splits) == 1
                    h = cell.get_depth()
                    if name == "T_HOO":
                        must = h <= bound_lo
                        mustnot = h > bound_hi
                        if (must and not expanded) or (mustnot and expanded):
                            raise Violation("expansion-rule", "T-HOO %s the pulled leaf of depth %d; depth bound ceil(%r)" % (
                                "expanded" if expanded else "did not expand", h, R.thoo_depth_bound_arg(p)), t)
                        if part.get_depth() > max(1, bound_hi + 1):
                            raise Violation("depth-bound", "tree depth %d exceeds bound %d + 1" % (part.get_depth(), bound_hi), t)
                    else:
                        T_after = len(L(cell))
                        capped = R.tplus(t) < t0
                        los, his = [], []
                        for tp in (R.tplus(t), R.tplus(t + 1)):
                            for V in ((V_before, R.variance(L(cell))) if name == "VHCT" else (None,)):
                                lo, hi = tau_range(name, p, cell, L(cell), tp, V=V)
                                los.append(lo)
                                his.append(hi)
                        must = was_leaf and T_after >= max(his) and not capped
                        mustnot = (not was_leaf) or (T_after < min(los) and not capped)
                        if (must and not expanded) or (mustnot and expanded):
                            raise Violation("expansion-rule", "%s %s %s: leaf=%s, pulls=%d, tau in [%d,%d]" % (
                                name, "expanded" if expanded else "did not expand", lab(cell), was_leaf, T_after, min(los), max(his)), t)
                if splits:
                    nexp += 1
                else:
                    not_expanded += 1
                # -------------------------------------------------- C05 (a), (b): U and B rules
                dense_round = (not sparse) or t % 250 == 0 or t == T or any(abs(t - (1 << k)) <= 3 for k in range(4, 40))
                if C5 and dense_round:
                    p2 = R.last_pow2(t)
                    credited = set(id(x) for x in ([cell] + ancestors(cell) if name == "T_HOO" else [cell]))
                    refresh_ok = R.tplus(t) == t or R.tplus(t + 1) == t + 1
                    had_prev = prev_round == t - 1
                    for n in iter_tree(root):
                        h = n.get_depth()
                        ln = L(n)
                        u = n.get_u_value()
                        # delta~ is recomputed only when the round counter reaches a power of two: the U-value of a
                        # cell that was not pulled must not move in any other round
                        if had_prev and id(n) not in credited and not refresh_ok:
                            pu = prevU.get(id(n))
                            if pu is not None and not (pu == u):
                                raise Violation("U-stable", "%s %s was not pulled in round %d (not a power of two) but its U moved %r -> %r" % (
                                    name, lab(n), t, pu, u), t)
                        prevU[id(n)] = u
                        if name == "T_HOO":
                            want = [R.u_thoo(ln, p, h)]
                        elif not ln:
                            want = [math.inf]
                        else:
                            sp = lastpull.get(id(n), 0)
                            tps = sorted(set(R.tplus(x) for x in (max(sp, p2), t, t + 1)))
                            if tps[0] < t0:
                                continue  # possibly computed under an active cap
                            want = [u_ref(name, ln, p, h, tp) for tp in tps]
                        if not any(close(u, w) for w in want):
                            raise Violation("U-rule", "%s %s after round %d: U=%r, admissible %r (pulls %d)" % (name, lab(n), t, u, want, len(ln)), t)
                        if n is root:
                            continue
                        ch = n.get_children()
                        b = n.get_b_value()
                        if ch is None:
                            if not (b == u):
                                raise Violation("B-rule", "leaf %s: B=%r != U=%r" % (lab(n), b, u), t)
                        else:
                            mb = max(c.get_b_value() for c in ch)
                            if not (b == min(u, mb)):
                                raise Violation("B-rule", "internal %s: B=%r, min(U=%r, max child B=%r)" % (lab(n), b, u, mb), t)
                    prev_round = t
            T = case["T"]
            if C5:
                nt = T >= 10 and rich_steps >= 2 and (name == "T_HOO" or refreshes >= 1)
                if rich_steps >= 2:
                    classes.append("distinct-finite-sibling-B")
            else:
                nt = nexp >= 3 and not_expanded >= 1
            if stopped_internal:
                classes.append("stopped-at-internal-cell")
            if not_expanded:
                classes.append("round-without-expansion")
            return Outcome(nontrivial=nt, classes=classes, rounds=T)
    except Unattributable:
        return Outcome(aborted="point-matches-several-cells", classes=classes)
    except Violation as v:
        return Outcome(violation=v.as_dict(), classes=classes, rounds=v.round or 0)


def simplify(case):
    T = case["T"]
    for t in (1, 2, 5, 10, 20, 50, T // 2, T - 1):
        if 1 <= t < T:
            c = copy.deepcopy(case)
            c["T"] = t
            yield c
    if len(case["domain"]) > 1:
        c = copy.deepcopy(case)
        c["domain"] = c["domain"][:1]
        yield c
    if case["domain"] != [[0, 1]] * len(case["domain"]):
        c = copy.deepcopy(case)
        c["domain"] = [[0, 1] for _ in case["domain"]]
        yield c
    if case["rng"].get("mode") == "script":
        c = copy.deepcopy(case)
        c["rng"] = {"mode": "seed", "seed": 0}
        yield c
    if case["partition"]["cls"] != "BinaryPartition":
        c = copy.deepcopy(case)
        c["partition"] = {"cls": "BinaryPartition"}
        yield c
    if case["reward"].get("overrides"):
        c = copy.deepcopy(case)
        c["reward"].pop("overrides")
        yield c
