"""Shared engine: environment, sharded Hypothesis driver, collection, reduction,
replay files, evidence and exit codes.  See DESIGN.md section 3.

Exit codes of a check: 0 = held on everything explored, 1 = an unlisted violation
(with a ``VIOLATION property=<id> replay=<path>`` line), 2 = harness error.
"""
import collections
import hashlib
import importlib
import json
import multiprocessing as mp
import os
import sys
import time
import traceback

VERIF = os.path.dirname(os.path.dirname(os.path.abspath(__file__)))
REPO = os.path.abspath(os.environ.get("VERIF_REPO", "/repo"))
NSHARDS = int(os.environ.get("VERIF_SHARDS", "16"))


class HarnessError(Exception):
    """A failure of the verification machinery itself (exit 2, never a violation)."""


def setup_paths():
    """Make PyXAB importable from the tree under test and hypothesis importable."""
    if REPO not in sys.path:
        sys.path.insert(0, REPO)
    try:
        import hypothesis  # noqa: F401
    except ImportError:
        deps = os.path.join(VERIF, ".deps")
        if deps not in sys.path:
            sys.path.insert(0, deps)
        try:
            import hypothesis  # noqa: F401
        except ImportError:
            raise HarnessError(
                "hypothesis is not importable; run MANIFEST.setup_cmd (./setup.sh)"
            )
    import PyXAB

    origin = os.path.abspath(os.path.dirname(PyXAB.__file__))
    if not origin.startswith(REPO + os.sep):
        raise HarnessError("PyXAB imported from %s, expected under %s" % (origin, REPO))


def canon(obj):
    """Canonical JSON text of a case (floats by repr, so bit-exact)."""
    return json.dumps(obj, sort_keys=True, separators=(",", ":"), default=_json_default)


def _json_default(o):
    try:
        import numpy as np

        if isinstance(o, np.floating):
            return float(o)
        if isinstance(o, np.integer):
            return int(o)
        if isinstance(o, np.ndarray):
            return o.tolist()
    except ImportError:  # pragma: no cover
        pass
    return repr(o)


def digest(obj):
    return hashlib.sha1(canon(obj).encode()).hexdigest()[:16]


def derive_seed(seed, *parts):
    h = hashlib.sha256(("%d|" % seed + "|".join(str(p) for p in parts)).encode())
    return int.from_bytes(h.digest()[:8], "big")


class Outcome:
    """Result of running one case through a property's oracle."""

    __slots__ = ("violation", "nontrivial", "classes", "rounds", "aborted", "known", "info")

    def __init__(self, violation=None, nontrivial=False, classes=(), rounds=0,
                 aborted=None, known=None, info=None):
        self.violation = violation  # None or dict(clause=, msg=, round=)
        self.nontrivial = nontrivial
        self.classes = list(classes)
        self.rounds = rounds
        self.aborted = aborted  # None or short reason (case could not be judged)
        self.known = known  # None or id of the open finding the failure matched
        self.info = info


class Violation(Exception):
    def __init__(self, clause, msg, rnd=None):
        super().__init__("%s: %s" % (clause, msg))
        self.clause = clause
        self.msg = msg
        self.round = rnd

    def as_dict(self):
        return {"clause": self.clause, "msg": self.msg, "round": self.round}


class _Found(Exception):
    """Raised inside a Hypothesis test to make Hypothesis stop on a real violation."""


class Collector:
    MAX_SAMPLES = 4

    def __init__(self):
        self.evaluations = 0
        self.digests = set()
        self.classes = collections.Counter()
        self.samples = []
        self.violations = []
        self.known_hits = collections.Counter()
        self.aborted = collections.Counter()
        self.rounds = 0
        self.extra = collections.Counter()
        self.exhaustive = []
        self.notes = []

    def add(self, sub, case, out):
        self.evaluations += 1
        self.rounds += out.rounds
        for c in out.classes:
            self.classes[c] += 1
        if isinstance(case, dict):  # how often the unusual-but-legal input forms are actually generated (any check)
            for sub_case in (case, case.get("A"), case.get("B")):
                if not isinstance(sub_case, dict):
                    continue
                if sub_case.get("alias_axes"):
                    self.classes["input:aliased-axes"] += 1
                rw = sub_case.get("reward")
                if isinstance(rw, dict) and rw.get("inttype"):
                    self.classes["input:int-typed-rewards"] += 1
                if isinstance(rw, dict) and rw.get("npfloat"):
                    self.classes["input:np.float64-rewards"] += 1
        if out.aborted:
            self.aborted[out.aborted] += 1
        if out.known:
            self.known_hits[out.known] += 1
        if out.nontrivial and not out.violation:
            d = digest(case)
            if d not in self.digests:
                self.digests.add(d)
                if len(self.samples) < self.MAX_SAMPLES:
                    self.samples.append({"subcheck": sub, "case": trim_case(case)})
        if out.violation and not out.known:
            self.violations.append({"subcheck": sub, "case": case, "violation": out.violation})

    def dump(self):
        return {
            "evaluations": self.evaluations,
            "digests": sorted(self.digests),
            "classes": dict(self.classes),
            "samples": self.samples,
            "violations": self.violations,
            "known_hits": dict(self.known_hits),
            "aborted": dict(self.aborted),
            "rounds": self.rounds,
            "extra": dict(self.extra),
            "exhaustive": self.exhaustive,
            "notes": self.notes,
        }


def trim_case(case, maxlen=12):
    """Copy of a case with long lists truncated, for evidence samples."""
    if isinstance(case, dict):
        return {k: trim_case(v, maxlen) for k, v in case.items()}
    if isinstance(case, (list, tuple)):
        if len(case) > maxlen:
            return [trim_case(v, maxlen) for v in case[:maxlen]] + ["...(%d more)" % (len(case) - maxlen)]
        return [trim_case(v, maxlen) for v in case]
    return case


class ShardCtx:
    def __init__(self, prop, tier, seed, shard, nshards):
        self.prop = prop
        self.tier = tier
        self.seed = seed
        self.shard = shard
        self.nshards = nshards
        self.col = Collector()

    def budget(self, quick, thorough):
        """Per-shard share of a total case budget."""
        total = quick if self.tier == "quick" else thorough
        scale = float(os.environ.get("VERIF_BUDGET_SCALE", "1"))
        return max(1, int(total * scale) // self.nshards)

    def drive(self, sub, strategy, check_case, max_examples, use_target=False):
        """Run ``check_case`` over ``max_examples`` cases drawn from ``strategy``.

        Stops at the first unlisted violation (Hypothesis does); known findings are
        counted and the search continues behind them."""
        from hypothesis import HealthCheck, Phase, given, seed, settings

        from pbt.guard import HangSuspected, wall_guard

        own_guard = getattr(importlib.import_module("pbt.props.%s" % self.prop.lower()), "OWN_GUARD", False)
        # the alarm only exists to survive runaway mutants; legitimate thorough-tier cases (large budgets,
        # per-round snapshots of thousands of cells) may take minutes on a loaded machine
        case_timeout = int(os.environ.get("VERIF_CASE_TIMEOUT", "60" if self.tier == "quick" else "900"))
        phases = [Phase.generate]
        if use_target:
            phases.append(Phase.target)
        col = self.col

        @seed(derive_seed(self.seed, self.prop, sub, self.shard))
        @settings(
            max_examples=max_examples,
            database=None,
            deadline=None,
            derandomize=False,
            report_multiple_bugs=False,
            suppress_health_check=list(HealthCheck),
            phases=phases,
        )
        @given(strategy)
        def test(case):
            if sum(v for k, v in col.aborted.items() if k.startswith("timeout") or "MemoryError" in k) >= 3:
                out = Outcome(aborted="skipped-after-3-runaway-cases")
            elif own_guard:
                out = check_case(case)
            else:
                try:
                    with wall_guard(case_timeout):
                        out = check_case(case)
                except HangSuspected:
                    # a time budget hit is 'inconclusive', never a violation
                    out = Outcome(aborted="timeout>%ds" % case_timeout)
                except MemoryError:
                    out = Outcome(aborted="exception:MemoryError")
            if out.aborted and (out.aborted.startswith("timeout") or "MemoryError" in out.aborted):
                import gc

                gc.collect()  # trees are cyclic: release a runaway case before the next draw
            col.add(sub, case, out)
            if out.violation and not out.known:
                raise _Found()
            if use_target and out.info and "target" in out.info:
                from hypothesis import target

                target(out.info["target"])

        nviol0 = len(col.violations)
        try:
            test()
        except _Found:
            pass
        except HarnessError:
            raise
        except BaseException as e:  # an exception escaping the oracle is a harness bug
            if len(col.violations) > nviol0:
                # a recorded violation did not reproduce when Hypothesis replayed the example
                # (non-determinism is what some properties are about): the record stands
                col.notes.append("subcheck %s: Hypothesis reported %s after a recorded violation" % (sub, type(e).__name__))
                return
            if not isinstance(e, Exception):
                raise
            if self._degraded():
                # a runaway case (timeout / MemoryError under the rlimit) left this worker short of
                # memory; what was explored so far stands, the rest of this shard is inconclusive
                col.notes.append("subcheck %s stopped early in shard %d after a runaway case: %s"
                                 % (sub, self.shard, type(e).__name__))
                return
            raise HarnessError(
                "internal error in subcheck %s: %s\n%s" % (sub, e, traceback.format_exc())
            )

    def drive_machine(self, sub, machine_cls, max_examples, steps=30):
        """Run a RuleBasedStateMachine; the machine itself reports to the collector from
        teardown() and raises _Found on a violation."""
        from hypothesis import HealthCheck, Phase, seed, settings
        from hypothesis.stateful import run_state_machine_as_test

        st_settings = settings(
            max_examples=max_examples,
            stateful_step_count=steps,
            database=None,
            deadline=None,
            derandomize=False,
            report_multiple_bugs=False,
            suppress_health_check=list(HealthCheck),
            phases=[Phase.generate],
        )
        nviol0 = len(self.col.violations)
        try:
            run_state_machine_as_test(
                seed(derive_seed(self.seed, self.prop, sub, self.shard))(machine_cls), settings=st_settings
            )
        except _Found:
            pass
        except HarnessError:
            raise
        except BaseException as e:  # noqa: BLE001
            if len(self.col.violations) > nviol0:
                self.col.notes.append("machine %s: Hypothesis reported %s after a recorded violation" % (sub, type(e).__name__))
                return
            if not isinstance(e, Exception):
                raise
            if self._degraded():
                self.col.notes.append("machine %s stopped early in shard %d after a runaway case: %s"
                                      % (sub, self.shard, type(e).__name__))
                return
            raise HarnessError("internal error in machine %s: %s\n%s" % (sub, e, traceback.format_exc()))

    def drive_fuzz(self, sub, runs):
        """Thorough tier only: a coverage-guided atheris/libFuzzer campaign over the sub-check's own strategy
        and oracle (pbt/fuzz.py), in a subprocess of its own. A campaign that cannot run is recorded as skipped -
        it can neither raise an alarm nor make the check fail; a violation it finds is a violation like any other."""
        import subprocess
        import tempfile

        if self.tier != "thorough" and not os.environ.get("VERIF_FUZZ"):
            return
        scale = float(os.environ.get("VERIF_BUDGET_SCALE", "1"))
        runs = max(50, int(runs * scale) // self.nshards)
        fd, out = tempfile.mkstemp(prefix="pyxab_fuzz_out_", suffix=".json")
        os.close(fd)
        os.remove(out)
        name = "fuzz-" + sub
        try:
            env = dict(os.environ, VERIF_REPO=REPO)
            r = subprocess.run([sys.executable, "-m", "pbt.fuzz", self.prop, sub, self.tier, str(runs), str(self.seed),
                                str(self.shard), out], cwd=VERIF, env=env, capture_output=True, text=True,
                               timeout=max(600, runs * 2))
            if r.returncode not in (0, 3) or not os.path.exists(out):
                self.col.notes.append("%s skipped in shard %d (exit %s: %s)" % (name, self.shard, r.returncode,
                                                                               (r.stdout + r.stderr).strip()[-160:]))
                return
            d = json.load(open(out))
        except Exception as e:  # noqa: BLE001 - the campaign is an extra; its own failures are never alarms
            self.col.notes.append("%s skipped in shard %d (%s)" % (name, self.shard, type(e).__name__))
            return
        finally:
            if os.path.exists(out):
                os.remove(out)
        col = self.col
        col.evaluations += d["evaluations"]
        col.digests.update(d["digests"])
        col.rounds += d["rounds"]
        for k, v in d["classes"].items():
            col.classes["fuzz:" + k] += v
        col.known_hits.update(d["known_hits"])
        col.aborted.update(d["aborted"])
        col.extra["fuzz_executions:" + sub] += d.get("fuzz_executions", 0)
        col.extra["fuzz_valid_cases:" + sub] += d["evaluations"]
        for v in d["violations"]:
            v["subcheck"] = name
            col.violations.append(v)

    def _degraded(self):
        return any(k.startswith("timeout") or "MemoryError" in k for k in self.col.aborted)

    def enumerate(self, sub, cases, check_case, exhaustive_note=None, presliced=False):
        """Run an explicitly enumerated list of cases (this shard's slice; ``presliced``: the iterable already
        holds only this shard's share)."""
        n = 0
        for i, case in enumerate(cases):
            if not presliced and i % self.nshards != self.shard:
                continue
            out = check_case(case)
            self.col.add(sub, case, out)
            n += 1
            if out.violation and not out.known:
                break
        if exhaustive_note and self.shard == 0:
            self.col.exhaustive.append(exhaustive_note)


def _worker(args):
    prop, tier, seed, shard, nshards = args
    try:
        import resource

        lim = int(float(os.environ.get("VERIF_MEM_GB", "3")) * 2 ** 30)
        resource.setrlimit(resource.RLIMIT_AS, (lim, lim))
        setup_paths()
        mod = importlib.import_module("pbt.props.%s" % prop.lower())
        ctx = ShardCtx(prop, tier, seed, shard, nshards)
        mod.run_shard(ctx)
        return {"ok": True, "data": ctx.col.dump()}
    except BaseException as e:  # noqa: BLE001
        return {"ok": False, "error": "%s: %s\n%s" % (type(e).__name__, e, traceback.format_exc())}


def _merge(dumps):
    tot = Collector()
    digests = set()
    for d in dumps:
        tot.evaluations += d["evaluations"]
        digests.update(d["digests"])
        tot.classes.update(d["classes"])
        for s in d["samples"]:
            if len(tot.samples) < Collector.MAX_SAMPLES:
                tot.samples.append(s)
        tot.violations.extend(d["violations"])
        tot.known_hits.update(d["known_hits"])
        tot.aborted.update(d["aborted"])
        tot.rounds += d["rounds"]
        tot.extra.update(d["extra"])
        tot.exhaustive.extend(d["exhaustive"])
        tot.notes.extend(d["notes"])
    tot.digests = digests
    return tot


def reduce_case(mod, case, signature, budget_s=20.0, max_tries=120):
    """Greedy deterministic reduction over the JSON case (DESIGN 3.7)."""
    from pbt.guard import HangSuspected, wall_guard

    simplify = getattr(mod, "simplify", None)
    if simplify is None:
        return case
    t0 = time.time()
    tries = 0
    improved = True
    while improved and time.time() - t0 < budget_s and tries < max_tries:
        improved = False
        for cand in simplify(case):
            tries += 1
            if time.time() - t0 > budget_s or tries > max_tries:
                break
            try:
                with wall_guard(30):
                    out = mod.check_case(cand)
            except (Exception, HangSuspected):  # noqa: BLE001 - incl. MemoryError under the rlimit
                continue
            if out.violation and not out.known and out.violation["clause"] == signature:
                case = cand
                improved = True
                break
    return case


def write_replay(prop, sub, case, violation):
    os.makedirs(os.path.join(VERIF, "replays"), exist_ok=True)
    body = {"property": prop, "subcheck": sub, "case": case, "violation": violation}
    name = "%s-%s.json" % (prop, digest(body))
    rel = os.path.join("replays", name)
    with open(os.path.join(VERIF, rel), "w") as f:
        f.write(json.dumps(body, indent=1, sort_keys=True, default=_json_default))
    return rel


def load_known():
    p = os.path.join(VERIF, "known_findings.json")
    if not os.path.exists(p):
        return []
    with open(p) as f:
        return json.load(f)["findings"]


def run_regressions(prop, mod):
    """Replay committed minimal reproductions.

    regressions/<prop>/*.json must pass (they are the repaired defects);
    regressions/known/<prop>-*.json must still fail with their signature and give a
    KNOWN-FINDING line.  Returns (violations, known_lines, counts)."""
    viol = []
    known_lines = []
    n = 0
    d = os.path.join(VERIF, "regressions", prop)
    if os.path.isdir(d):
        for fn in sorted(os.listdir(d)):
            if not fn.endswith(".json"):
                continue
            with open(os.path.join(d, fn)) as f:
                body = json.load(f)
            out = mod.check_case(body["case"])
            n += 1
            if out.violation and not out.known:
                viol.append({"subcheck": "regression:" + fn, "case": body["case"], "violation": out.violation})
    kd = os.path.join(VERIF, "regressions", "known")
    findings = {f["id"]: f for f in load_known() if f.get("status") == "open" and f["property"] == prop}
    if os.path.isdir(kd):
        for fn in sorted(os.listdir(kd)):
            if not fn.startswith(prop + "-") or not fn.endswith(".json"):
                continue
            with open(os.path.join(kd, fn)) as f:
                body = json.load(f)
            out = mod.check_case(body["case"])
            n += 1
            fid = body["finding"]
            if out.known == fid and fid in findings:
                known_lines.append("KNOWN-FINDING: property=%s %s [%s]" % (prop, findings[fid]["what"], fid))
            elif out.violation and not out.known:
                viol.append({"subcheck": "known:" + fn, "case": body["case"], "violation": out.violation})
            # a known finding that no longer reproduces is simply not reported
    return viol, known_lines, n


def run_check(prop, tier, seed):
    t0 = time.time()
    setup_paths()
    mod = importlib.import_module("pbt.props.%s" % prop.lower())
    reg_viol, known_lines, nreg = run_regressions(prop, mod)
    for line in known_lines:
        print(line)
    nshards = NSHARDS
    args = [(prop, tier, seed, s, nshards) for s in range(nshards)]
    if nshards == 1:
        results = [_worker(args[0])]
    else:
        ctx = mp.get_context("fork")
        with ctx.Pool(nshards, maxtasksperchild=1) as pool:
            results = pool.map(_worker, args, chunksize=1)
    errors = [r["error"] for r in results if not r["ok"]]
    if errors:
        sys.stderr.write("HARNESS ERROR in %s:\n%s\n" % (prop, errors[0]))
        return 2
    if os.environ.get("VERIF_DEBUG"):
        for i, r in enumerate(results):
            d = r["data"]
            print("shard", i, d["evaluations"], len(d["digests"]), d["rounds"], digest(d["digests"]))
    tot = _merge([r["data"] for r in results])
    tot.violations = reg_viol + tot.violations
    # one replay per distinct (subcheck family, clause)
    seen = {}
    for v in tot.violations:
        key = (v["violation"]["clause"], v["case"].get("algo", {}).get("name") if isinstance(v["case"].get("algo"), dict) else None)
        if key not in seen:
            seen[key] = v
    replay_paths = []
    try:  # the reduction re-runs cases in this process: keep a runaway mutant from exhausting the machine
        import resource

        lim = int(float(os.environ.get("VERIF_MEM_GB", "3")) * 2 ** 30) + 2 * 2 ** 30
        resource.setrlimit(resource.RLIMIT_AS, (lim, lim))
    except Exception:  # noqa: BLE001
        pass
    for key, v in list(seen.items())[:5]:
        try:
            case = reduce_case(mod, v["case"], v["violation"]["clause"])
            from pbt.guard import HangSuspected, wall_guard

            with wall_guard(60):
                out = mod.check_case(case)
            violation = out.violation or v["violation"]
        except (Exception, HangSuspected):  # noqa: BLE001
            case, violation = v["case"], v["violation"]
        rel = write_replay(prop, v["subcheck"], case, violation)
        replay_paths.append(rel)
        print("VIOLATION property=%s replay=%s" % (prop, rel))
        print("  clause=%s round=%s: %s" % (violation["clause"], violation.get("round"), str(violation["msg"])[:400]))
    wall = time.time() - t0
    write_evidence(prop, mod, tier, seed, tot, wall, nreg, len(seen), known_lines)
    print(
        "%s %s seed=%d: %d cases, %d distinct non-trivial, %d rounds checked, %d known-finding hits, "
        "%d aborted, %d violation(s), %.1fs"
        % (prop, tier, seed, tot.evaluations, len(tot.digests), tot.rounds,
           sum(tot.known_hits.values()), sum(tot.aborted.values()), len(seen), wall)
    )
    return 1 if seen else 0


def write_evidence(prop, mod, tier, seed, tot, wall, nreg, nviol, known_lines):
    ev = {
        "property_id": prop,
        "tier": tier,
        "seed": seed,
        "level": "exploration",
        "coverage": {
            "evaluations": tot.evaluations,
            "distinct_nontrivial": len(tot.digests),
            "rule": getattr(mod, "RULE", ""),
            "samples": tot.samples,
            "classes": dict(sorted(tot.classes.items())),
            "rounds_checked": tot.rounds,
            "known_finding_hits": dict(tot.known_hits),
            "aborted": dict(tot.aborted),
            "regressions_replayed": nreg,
            "known_findings_reported": known_lines,
            "exhaustive_subchecks": tot.exhaustive,
            "exhaustive": False,
            "extra": dict(sorted(tot.extra.items())),
            "notes": sorted(set(tot.notes))[:20],
            "repo": REPO,
            "shards": NSHARDS,
        },
        "assumptions": list(getattr(mod, "ASSUMPTIONS", [])),
        "wall_s": round(wall, 2),
        "violations": nviol,
    }
    evdir = os.environ.get("VERIF_EVIDENCE_DIR") or os.path.join(VERIF, "evidence")
    os.makedirs(evdir, exist_ok=True)
    with open(os.path.join(evdir, "%s.json" % prop), "w") as f:
        f.write(json.dumps(ev, indent=1, sort_keys=False, default=_json_default))


def replay(prop, path):
    setup_paths()
    mod = importlib.import_module("pbt.props.%s" % prop.lower())
    with open(path) as f:
        body = json.load(f)
    out = mod.check_case(body["case"])
    if out.violation and not out.known:
        print("VIOLATION property=%s replay=%s" % (prop, path))
        print("  clause=%s round=%s: %s" % (out.violation["clause"], out.violation.get("round"), out.violation["msg"]))
        return 1
    if out.known:
        print("KNOWN-FINDING: property=%s replay matches open finding %s" % (prop, out.known))
    print("replay %s: no violation (aborted=%s)" % (path, out.aborted))
    return 0
