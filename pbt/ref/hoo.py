"""Reference rules for T-HOO, HCT and VHCT, written from the published pseudo-code
(docs/source/features/algorithms/{HOO,HCT,VHCT}) and the statements of C05/C06 - not from
the Python under test.  Everything is a function of the raw history (ledger)."""
import math


def tplus(t):
    """Smallest power of two >= t (t >= 1), in integer arithmetic."""
    return 1 << (int(t) - 1).bit_length()


def last_pow2(t):
    """Largest power of two <= t (t >= 1)."""
    return 1 << (int(t).bit_length() - 1)


_CACHE = {}


def reset_cache():
    """The ledger lists of one run are append-only and live for the whole run, so (id, len) identifies
    their content; cleared at the start of every run."""
    _CACHE.clear()


def mean(led):
    key = (id(led), len(led), 0)
    v = _CACHE.get(key)
    if v is None:
        v = _CACHE[key] = math.fsum(float(x) for x in led) / len(led)
    return v


def variance(led, floor=1e-3):
    key = (id(led), len(led), 1)
    v = _CACHE.get(key)
    if v is None:
        m = mean(led)
        v = _CACHE[key] = max(math.fsum((float(x) - m) ** 2 for x in led) / len(led), floor)
    return v


def c1(nu, rho):
    return (rho / (3.0 * nu)) ** 0.125


def delta_tilde(p, tp):
    return c1(p["nu"], p["rho"]) * p["delta"] / tp


def u_thoo(led, p, h):
    if not led:
        return math.inf
    return mean(led) + p["nu"] * p["rho"] ** h + math.sqrt(2.0 * math.log(p["rounds"]) / len(led))


def u_hct(led, p, h, tp):
    if not led:
        return math.inf
    L = math.log(1.0 / delta_tilde(p, tp))
    return mean(led) + p["nu"] * p["rho"] ** h + p["c"] * math.sqrt(L / len(led))


def u_vhct(led, p, h, tp):
    if not led:
        return math.inf
    L = math.log(1.0 / delta_tilde(p, tp))
    V = variance(led)
    T = len(led)
    return (mean(led) + p["nu"] * p["rho"] ** h
            + p["c"] * math.sqrt(2.0 * V * L / T) + 3.0 * p["bound"] * p["c"] ** 2 * L / T)


def tau_arg_hct(p, h, tp):
    """Argument of the ceil in tau_h = ceil(c^2 ln(1/delta~) rho^(-2h) / nu^2)."""
    L = math.log(1.0 / delta_tilde(p, tp))
    return p["c"] ** 2 * L * p["rho"] ** (-2 * h) / p["nu"] ** 2


def tau_arg_vhct(p, h, V, tp):
    """Smallest count at which the Bernstein width c sqrt(2 V L / T) + 3 b c^2 L / T drops to
    eps = nu rho^h:  T >= c^2 L (V + 3 b eps + V sqrt(1 + 6 b eps / V)) / eps^2."""
    L = math.log(1.0 / delta_tilde(p, tp))
    eps = p["nu"] * p["rho"] ** h
    b = p["bound"]
    return p["c"] ** 2 * L * (V + 3.0 * b * eps + V * math.sqrt(1.0 + 6.0 * b * eps / V)) / eps ** 2


def ceil_range(x, rel=1e-9):
    """(lo, hi): every value ceil could legitimately take for an argument within rel of x."""
    a = x * (1 - rel) - 1e-12
    b = x * (1 + rel) + 1e-12
    return math.ceil(a), math.ceil(b)


def thoo_depth_bound_arg(p):
    return (math.log(p["rounds"]) / 2.0 - math.log(1.0 / p["nu"])) / math.log(1.0 / p["rho"])


def thoo_depth_bound_range(p):
    """(lo, hi) for ceil((ln(n)/2 - ln(1/nu)) / ln(1/rho)).

    The bound is evaluated twice: exactly (60-digit decimal arithmetic on the exact values of the
    float parameters) and in IEEE doubles with the published formula.  Where both agree the bound
    is that single integer - in particular when the argument is an exact integer (sqrt(n) nu a
    power of 1/rho), where `<=` and `<` readings of the rule differ.  Where rounding makes the
    double evaluation land on the other side of an integer, either value is accepted."""
    import numpy as np
    from decimal import Decimal, getcontext, ROUND_CEILING

    getcontext().prec = 60
    n, nu, rho = p["rounds"], p["nu"], p["rho"]
    xe = (Decimal(n).ln() / 2 - (Decimal(1) / Decimal(float(nu))).ln()) / ((Decimal(1) / Decimal(float(rho))).ln())
    k = xe.to_integral_value()
    if abs(xe - k) < Decimal("1e-40"):
        ce = int(k)
    else:
        ce = int(xe.to_integral_value(rounding=ROUND_CEILING))
    xd = (np.log(n) / 2 - np.log(1 / nu)) / np.log(1 / rho)
    cd = int(math.ceil(xd))
    return min(ce, cd), max(ce, cd)
