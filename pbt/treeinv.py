"""C03's structural invariant over a partition (tree <-> per-depth node lists)."""
from pbt.harness import iter_tree


def tree_consistent(part):
    """Returns None or (clause, text)."""
    nl = part.get_node_list()
    root = part.get_root()
    if not nl or len(nl[0]) != 1 or nl[0][0] is not root:
        return ("root-layer", "layer 0 is not [root]")
    if root.get_parent() is not None or root.get_depth() != 0 or root.get_index() != 1:
        return ("root-label", "root has parent/depth/index %r/%r/%r" % (root.get_parent(), root.get_depth(), root.get_index()))
    listed = {}
    layer_ids = set(id(l) for l in nl)
    for h, layer in enumerate(nl):
        labels = set()
        for n in layer:
            if id(n) in listed:
                return ("listed-once", "cell (%d,%d) is listed twice (layers %d and %d)" % (n.get_depth(), n.get_index(), listed[id(n)], h))
            listed[id(n)] = h
            if n.get_depth() != h:
                return ("layer-depth", "cell of depth %d sits in layer %d" % (n.get_depth(), h))
            lab = n.get_index()
            if lab in labels:
                return ("label-unique", "label (%d,%d) occurs twice" % (h, lab))
            labels.add(lab)
    reach = {}
    for n in iter_tree(root):
        if id(n) in reach:
            return ("tree-shape", "cell (%d,%d) reachable twice" % (n.get_depth(), n.get_index()))
        reach[id(n)] = n
        ch = n.get_children()
        if ch is None:
            continue
        if id(ch) in layer_ids:
            return ("alias", "the child list of (%d,%d) is a layer list object" % (n.get_depth(), n.get_index()))
        K = len(ch)
        if K == 0:
            return ("children", "cell (%d,%d) has an empty child list" % (n.get_depth(), n.get_index()))
        seen = set()
        for j, c in enumerate(ch):
            if id(c) in seen:
                return ("children", "cell (%d,%d) lists a child twice" % (n.get_depth(), n.get_index()))
            seen.add(id(c))
            if c.get_parent() is not n:
                return ("parent-link", "child #%d (%d,%d) of (%d,%d) has another parent: a cell created by splitting another cell"
                        % (j, c.get_depth(), c.get_index(), n.get_depth(), n.get_index()))
            if c.get_depth() != n.get_depth() + 1:
                return ("child-depth", "child of depth %d under a cell of depth %d" % (c.get_depth(), n.get_depth()))
            # exact Python-int arithmetic: a label held as a NumPy integer would make this very expression wrap
            # around together with the code under test (seeded change C03j), a float label would round
            try:
                pi, ci = n.get_index(), c.get_index()
                want = K * (int(pi) - 1) + 1 + j
                wrong = int(ci) != want or not (ci == int(ci)) or not (pi == int(pi))
            except (OverflowError, ValueError, TypeError):
                want, wrong = None, True
            if wrong:
                return ("child-index", "child #%d of (%r,%r) has index %r, expected %r (K=%d)"
                        % (j, n.get_depth(), n.get_index(), c.get_index(), want, K))
    if set(reach) != set(listed):
        only_listed = [k for k in listed if k not in reach]
        only_reach = [k for k in reach if k not in listed]
        return ("listed-vs-reachable", "%d listed cells are unreachable from the root, %d reachable cells are not listed"
                % (len(only_listed), len(only_reach)))
    deepest = max(h for h, layer in enumerate(nl) if layer)
    if part.get_depth() != deepest or part.get_depth() != len(nl) - 1:
        return ("depth", "get_depth()=%r, deepest non-empty layer %d, %d layers" % (part.get_depth(), deepest, len(nl)))
    return None
