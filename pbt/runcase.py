"""Subprocess entry for C14's process differential: reads a JSON case on stdin, prints the
trace (points by repr, recommendation, error) as JSON."""
import json
import os
import sys


def main():
    garbage = int(os.environ.get("VERIF_GARBAGE", "0"))
    junk = [[i, str(i), {i: i}] for i in range(garbage)]  # shifts object ids / heap layout
    from pbt import engine

    engine.setup_paths()
    from pbt.props.c14 import trace

    case = json.load(sys.stdin)
    case.pop("process", None)
    out = trace(case)
    out["junk"] = len(junk)
    print(json.dumps(out))


if __name__ == "__main__":
    main()
