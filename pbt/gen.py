"""Hypothesis strategies producing JSON cases (DESIGN 3.2): sound first, then wide.

Preconditions of DESIGN 2.2 are built in by construction (no filtering)."""
import math

from hypothesis import strategies as st

from pbt.harness import ALGOS, BASES, KARY, arity

# ---------------------------------------------------------------------- domains


def _fin(lo, hi):
    return st.floats(min_value=lo, max_value=hi, allow_nan=False, allow_infinity=False, allow_subnormal=False)


@st.composite
def interval(draw, extreme=False, exact_friendly=False, bigint=False):
    """One [lo, hi] with finite lo < hi, from a mixture of classes."""
    kinds = ["unit", "int", "neg", "shift", "narrow", "wide", "float"]
    if extreme:
        kinds.append("extreme")
        kinds.append("ulps")
    if bigint:  # the two exotic kinds only C02's direct sub-check asks for (open findings D12, D13)
        kinds.append("bigint")
        kinds.append("tiny")
    kind = draw(st.sampled_from(kinds))
    if kind == "unit":
        return [0, 1] if draw(st.booleans()) else [0.0, 1.0]
    if kind == "int":
        lo = draw(st.integers(-50, 50))
        return [lo, lo + draw(st.integers(1, 100))]
    if kind == "neg":
        hi = -draw(_fin(0.0, 100.0))
        return [hi - draw(_fin(0.01, 100.0)), hi]
    if kind == "shift":
        base = draw(st.sampled_from([1e3, 1e6, -1e6, 12345.678]))
        return [base, base + draw(st.sampled_from([1.0, 0.5, 3.0, 1e-3]))]
    if kind == "narrow":
        lo = draw(_fin(-10.0, 10.0))
        w = draw(st.sampled_from([1e-6, 1e-4, 3e-5]))
        return [lo, lo + w]
    if kind == "wide":
        return [-draw(_fin(1.0, 1e6)), draw(_fin(1.0, 1e6))]
    if kind == "tiny":
        # bounds around the smallest normal double 2^-1022 and below: halving a number there is no longer exact
        u = 5e-324
        lo = draw(st.sampled_from([0.0, 2.0 ** -1022, -(2.0 ** -1022), 2.0 ** -1030])) + draw(st.integers(-50, 2000)) * u
        return [lo, lo + draw(st.sampled_from([2, 4, 6, 12, 1024, 4097, 10 ** 6])) * u]
    if kind == "ulps":
        # a valid, non-degenerate interval that is only a few ulps wide: cells collapse to single doubles
        lo = draw(st.sampled_from([1.0, 0.5, -3.0, 1000.0, 0.1]))
        k = draw(st.sampled_from([2, 3, 8, 64, 1024, 4096]))
        return [lo, lo + k * math.ulp(lo)]
    if kind == "bigint":
        # Python ints beyond 2^53 that no double represents exactly (e.g. nanosecond time stamps)
        lo = draw(st.sampled_from([10 ** 18, 1_700_000_000_000_000_000, -(10 ** 17), 2 ** 60])) + draw(st.integers(1, 999))
        return [lo, lo + draw(st.sampled_from([3_600_000_000_001, 10 ** 9 + 7, 2 ** 40 + 1]))]
    if kind == "extreme":
        m = draw(st.sampled_from([1e30, 1e100, 1e-30, 1e-100]))
        lo = draw(_fin(-1.0, 1.0)) * m
        return [lo, lo + m * draw(_fin(0.5, 2.0))]
    lo = draw(_fin(-1e9, 1e9))
    w = draw(_fin(1e-9, 1.0)) * max(1.0, abs(lo)) * draw(st.sampled_from([1.0, 1e3, 1e-3, 1e-6]))
    hi = lo + max(w, 1e-9 * max(1.0, abs(lo)))
    if not hi > lo:
        hi = lo + max(1.0, abs(lo)) * 1e-6
    return [lo, hi]


@st.composite
def domains(draw, max_d=3, extreme=False, min_d=1, bigint=False):
    d = draw(st.integers(min_d, max_d))
    if draw(st.integers(0, 3)) == 0:
        return [[0, 1] for _ in range(d)] if draw(st.booleans()) else [[0.0, 1.0] for _ in range(d)]
    return [draw(interval(extreme=extreme, bigint=bigint)) for _ in range(d)]


@st.composite
def aliased(draw, dom, prob_den=6):
    """(domain, alias flag): in dimension >= 2, one time in ``prob_den`` every axis gets the bounds of the first one
    and the flag asks the harness to hand the library ONE shared list object for all of them - the idiomatic
    ``[[0, 1]] * d`` - which is a perfectly legal way of writing a box (round 9 of DESIGN 8.2)."""
    if len(dom) >= 2 and draw(st.integers(0, prob_den - 1)) == 0:
        return [list(dom[0]) for _ in dom], True
    return dom, False


def materialise_domain(case):
    """The domain object handed to the library: a fresh deep copy; with ``alias_axes`` all axes are one list object."""
    import copy

    dom = copy.deepcopy(case["domain"])
    if case.get("alias_axes") and len(dom) >= 2 and all(
            [type(v) for v in ax] == [type(v) for v in dom[0]] and ax == dom[0] for ax in dom):
        return [dom[0]] * len(dom)
    return dom


# ------------------------------------------------------------------- partitions


@st.composite
def partitions(draw, max_K=5, binary_children_only=False, d=None, midpoint_bias=False):
    names = ["BinaryPartition", "RandomBinaryPartition", "DimensionBinaryPartition",
             "KaryPartition", "RandomKaryPartition"]
    if binary_children_only:
        names = ["BinaryPartition", "RandomBinaryPartition", "KaryPartition", "RandomKaryPartition"]
        if d == 1:
            names.append("DimensionBinaryPartition")
    if midpoint_bias:
        names = names + ["BinaryPartition", "DimensionBinaryPartition", "KaryPartition"]
    cls = draw(st.sampled_from(names))
    spec = {"cls": cls}
    if cls in KARY:
        spec["K"] = 2 if binary_children_only else draw(st.integers(2, max_K))
    return spec


# ------------------------------------------------------------------------- RNG

_EDGE_FRACS = [0.0, 2.0 ** -53, 2.0 ** -30, 0.5, 1 - 2.0 ** -30, 1 - 2.0 ** -53]


@st.composite
def rngs(draw, script_prob=0.5, max_len=40):
    seed = draw(st.integers(0, 2 ** 32 - 1))
    if draw(st.floats(0, 1)) >= script_prob:
        return {"mode": "seed", "seed": seed}
    ints = draw(st.lists(st.integers(0, 11), max_size=max_len))
    fr = st.one_of(st.sampled_from(_EDGE_FRACS), st.floats(0, 1, exclude_max=True))
    fracs = draw(st.lists(fr, max_size=max_len))
    return {"mode": "script", "seed": seed, "ints": ints, "fracs": fracs}


# ---------------------------------------------------------------------- rewards

ALL_LAWS = ["const", "noise", "negative", "nonpos_ties", "ties", "large", "alternating", "ramp",
            "peak", "peakpos", "bump", "neartie", "neg_then_zero", "twolevel"]


@st.composite
def rewards(draw, laws=None, d=1, max_over=4, T=100):
    law = draw(st.sampled_from(laws or ALL_LAWS))
    spec = {"law": law, "seed": draw(st.integers(0, 2 ** 31 - 1))}
    p = {}
    if law == "const":
        p["c"] = draw(st.sampled_from([0.0, 0.5, -1.0, 1.0, 3.25]))
    if law == "twolevel":
        p["star"] = [draw(st.floats(0, 1)) for _ in range(d)]
        p["amp"] = draw(st.sampled_from([0.035, 0.04, 0.03, 0.05, 0.1, 0.02]))
        p["levels"] = draw(st.sampled_from([2, 2, 3]))
    if law == "neg_then_zero":
        p["r0"] = draw(st.integers(1, max(1, T)))
    if law == "neartie":
        p["c"] = draw(st.sampled_from([1.0, -3.0, 1e6, 0.7, -1e-3]))
    if law == "alternating":
        p["a"] = draw(st.sampled_from([1.0, 0.25, 1e3]))
    if law in ("peak", "peakpos", "bump"):
        p["star"] = [draw(st.floats(0, 1)) for _ in range(d)]
        p["sigma"] = draw(st.sampled_from([0.0, 0.0, 0.05, 0.3, 1.0]))
    if p:
        spec["params"] = p
    n_over = draw(st.integers(0, max_over))
    if n_over:
        spec["overrides"] = [
            [draw(st.integers(1, max(1, T))), draw(st.one_of(
                st.sampled_from([0.0, -1.0, 1.0, 1e6, -1e6, 0.5]),
                st.floats(-10, 10, allow_nan=False)))]
            for _ in range(n_over)
        ]
    k = draw(st.integers(0, 9))
    if k < 2:
        spec["npfloat"] = True
    elif k == 2:
        # integral rewards arrive as Python ints (0/1 feedback written as ints is the commonest reward there is)
        spec["inttype"] = True
    return spec


# ------------------------------------------------------------------ algorithms


def loguniform(lo, hi):
    return st.floats(math.log(lo), math.log(hi)).map(math.exp)


def min_hmax_soo(n, K):
    """Smallest h_max such that the cells of depth <= h_max, (K^(h_max+1)-1)/(K-1) of them,
    outnumber the budget (each cell is evaluated once)."""
    h = 0
    while (K ** (h + 1) - 1) // (K - 1) <= n:
        h += 1
    return h


def min_hmax_stosoo(n, k, K):
    """StoSOO returns None once every cell *above* the cap has been expanded and the best
    cell at the cap is fully evaluated; each of the (K^h_max - 1)/(K-1) cells above the cap
    needs k evaluations before it is expanded, so the cap holds the budget as soon as
    k (K^h_max - 1)/(K-1) > n."""
    h = 1
    while k * ((K ** h - 1) // (K - 1)) <= n:
        h += 1
    return h


def gpo_N(n, rhomax):
    Dmax = math.log(2) / math.log(1 / rhomax)
    return math.ceil(0.5 * Dmax * math.log((n / 2) / math.log(n / 2)))


def poo_starts(rhomax):
    Dmax = math.log(2) / math.log(1 / rhomax)
    return 2 <= 0.5 * Dmax * math.log(2 / math.log(2))


@st.composite
def algo_spec(draw, name, d, pspec, n_range=(100, 300), full=False, hct_caps_inactive=False,
              gpo_ok_only=False, poo_ok_only=False, base=None):
    """Parameters inside the documented ranges.  ``full`` widens to C01's ranges."""
    K = arity(pspec, d)
    n = draw(st.integers(*n_range))
    nu = draw(loguniform(0.01, 10.0))
    rho = draw(st.floats(0.05, 0.95))
    if name == "T_HOO":
        if draw(st.integers(0, 5)) == 0:
            # boundary configurations: sqrt(n)*nu an exact power of 1/rho, where the argument of the
            # ceil in the truncation depth is an exact integer (`<=` and `<` readings differ there)
            squares = [m for m in (64, 256, 1024, 4096, 16384) if n_range[0] <= m <= n_range[1]] or [256]
            return {"name": name, "params": {"nu": draw(st.sampled_from([0.25, 0.5, 1.0, 1, 2.0, 4.0])),
                                             "rho": draw(st.sampled_from([0.5, 0.25, 0.125])),
                                             "rounds": draw(st.sampled_from(squares))}}
        return {"name": name, "params": {"nu": nu, "rho": rho, "rounds": n}}
    if name in ("HCT", "VHCT"):
        c = draw(st.floats(0.01, 2.0))
        delta = draw(st.one_of(loguniform(1e-6, 0.99 if full else 0.3), st.floats(0.3, 0.99))) if hct_caps_inactive else \
            draw(loguniform(1e-6, 0.99 if full else 0.3))
        if hct_caps_inactive and draw(st.booleans()):
            c1 = (rho / (3 * nu)) ** 0.125
            if c1 * delta > 0.5:
                delta = 0.5 / c1 * 0.999
        p = {"nu": nu, "rho": rho, "c": c, "delta": delta}
        if name == "VHCT":
            # bound > 0 is all the documentation asks for: include the variance-dominated regime (tiny bound)
            p["bound"] = draw(st.one_of(st.floats(0.1, 5.0), st.floats(0.1, 5.0), loguniform(1e-18, 1.0)))
        return {"name": name, "params": p, "n": n}
    if name in ("POO", "GPO", "PCT", "VPCT"):
        if name == "POO":
            lo = 0.84 if poo_ok_only else 0.05
            rhomax = draw(st.one_of(st.floats(0.84, 0.995), st.floats(lo, 0.995)))
        else:
            rhomax = draw(st.one_of(st.floats(0.3, 0.95), st.floats(0.05, 0.995)))
            if gpo_ok_only:
                # budget must hold the learners: floor(n / 2N) >= 1
                while n // (2 * gpo_N(n, rhomax)) < 1:
                    rhomax = rhomax * 0.9
        p = {"numax": draw(loguniform(0.05, 5.0)), "rhomax": rhomax, "rounds": n}
        spec = {"name": name, "params": p}
        if name in ("POO", "GPO"):
            spec["base"] = base or draw(st.sampled_from(BASES))
        return spec
    if name == "DOO":
        p = {"n": n}
        kind = draw(st.sampled_from([None, "geom", "const", "inv", "grow", "table"]))
        if kind:
            p["delta"] = {"kind": kind, "a": draw(st.sampled_from([1.0, 0.1, 5.0, 0.0])),
                          "b": draw(st.sampled_from([0.5, 0.9, 0.25]))}
            if kind == "table":
                p["delta"]["values"] = draw(st.lists(st.sampled_from([0.0, 0.1, 0.2, 0.3, 0.5, 0.6, 1.0, 2.0]), min_size=2, max_size=8))
        return {"name": name, "params": p}
    if name == "SOO":
        hmin = min_hmax_soo(n, K)
        h_max = hmin + draw(st.sampled_from([0, 1, 2, 10, 100]))
        return {"name": name, "params": {"n": n, "h_max": h_max}}
    if name == "StoSOO":
        k = draw(st.sampled_from([None, 1, 2, 3, 5]))
        keff = k if k is not None else math.ceil(n / math.log(n) ** 3)
        hmin = min_hmax_stosoo(n, keff, K)
        h_max = hmin + draw(st.sampled_from([0, 1, 2, 10, 100]))
        p = {"n": n, "k": k, "h_max": h_max}
        dl = draw(st.sampled_from([None, 0.01, 0.1, 0.5, 0.9]))
        if dl is not None:
            p["delta"] = dl
        return {"name": name, "params": p}
    if name == "SequOOL":
        return {"name": name, "params": {"n": n}}
    if name == "StroquOOL":
        return {"name": name, "params": {"n": n}}
    if name == "VROOM":
        sd = int(math.floor(math.log2(n)))
        h_max = max(1, sd + draw(st.sampled_from([-2, -1, 0, 0, 1, 3, 8])))
        return {"name": name, "params": {"n": n, "h_max": h_max,
                                         "b": draw(loguniform(0.05, 5.0)),
                                         "f_max": draw(loguniform(0.1, 10.0))}}
    if name == "Zooming":
        return {"name": name, "params": {"nu": nu, "rho": draw(st.floats(0.05, 0.99))}, "n": n}
    raise ValueError(name)


def budget_of(aspec):
    p = aspec.get("params", {})
    for k in ("rounds", "n"):
        if k in p:
            return p[k]
    return aspec.get("n", 200)


@st.composite
def run_case(draw, names=ALGOS, max_d=3, n_range=(100, 300), laws=None, T_max=None, T_min=1,
             extreme=False, full=False, script_prob=0.4, binary_children_only=False,
             midpoint_bias=False, max_K=5, full_T_prob=0.34, vroom_nonbinary_ok=False, **akw):
    """A complete algorithm-run case."""
    name = draw(st.sampled_from(list(names)))
    dom, alias = draw(aliased(draw(domains(max_d=max_d, extreme=extreme))))
    d = len(dom)
    bco = binary_children_only or name == "VROOM_binary"
    pspec = draw(partitions(max_K=max_K, binary_children_only=bco, d=d, midpoint_bias=midpoint_bias))
    aspec = draw(algo_spec(name, d, pspec, n_range=n_range, full=full, **akw))
    if name == "VROOM" and arity(pspec, d) != 2:
        # VROOM builds arity^floor(log2 n) cells at construction and then fails at the first
        # pull (open finding D10): only C01 asks for such cases, and only bounded ones.
        sd = int(math.floor(math.log2(aspec["params"]["n"])))
        if not vroom_nonbinary_ok or arity(pspec, d) ** sd > 4096:
            pspec = {"cls": draw(st.sampled_from(["BinaryPartition", "RandomBinaryPartition"]))}
    n = budget_of(aspec)
    hi = min(n, T_max) if T_max else n
    lo = min(T_min, hi)
    if draw(st.floats(0, 1)) < full_T_prob:
        T = hi
    else:
        T = draw(st.integers(lo, hi))
    case = {
        "algo": aspec,
        "partition": pspec,
        "domain": dom,
        "rng": draw(rngs(script_prob=script_prob)),
        "T": T,
        "reward": draw(rewards(laws=laws, d=d, T=T)),
    }
    if alias:
        case["alias_axes"] = True
    return case
