"""Exact geometric predicates for C02 (all comparisons exact on the float values,
arithmetic through Fraction)."""
import bisect
import math
from fractions import Fraction

import numpy as np

from pbt.harness import is_real

EQUAL_SIZE = ("BinaryPartition", "DimensionBinaryPartition", "KaryPartition")


def F(v):
    return Fraction(float(v)) if not isinstance(v, int) else Fraction(v)


def ex(v):
    """Exact comparisons: NumPy compares an np.float64 with a large Python int by casting the int to
    float64, Python compares float and int exactly - so NumPy scalars are converted to Python floats."""
    if isinstance(v, bool) or isinstance(v, int):
        return v
    if isinstance(v, np.integer):
        return int(v)
    return float(v)


def exbox(box):
    return [[ex(iv[0]), ex(iv[1])] for iv in box]


def box_ok(box, d):
    if not isinstance(box, list) or len(box) != d:
        return "box is not a list of %d intervals: %r" % (d, box)
    for k, iv in enumerate(box):
        if not isinstance(iv, list) or len(iv) != 2:
            return "interval %d malformed: %r" % (k, iv)
        lo, hi = iv
        if not (is_real(lo) and is_real(hi) and math.isfinite(lo) and math.isfinite(hi)):
            return "interval %d has a non-finite/non-real bound: %r" % (k, iv)
        if not lo <= hi:
            return "interval %d has lo > hi: %r" % (k, iv)
    return None


def centre_ok(node):
    """get_cpoint() is the exactly rounded midpoint of the box, to 1 ulp, inside the box."""
    box = node.get_domain()
    cp = node.get_cpoint()
    if not isinstance(cp, list) or len(cp) != len(box):
        return "c_point %r does not match the box dimension" % (cp,)
    for k, ((lo, hi), c) in enumerate(zip(box, cp)):
        if is_real(lo) and is_real(hi) and is_real(c):
            lo, hi, c = ex(lo), ex(hi), ex(c)
        if not is_real(c) or not math.isfinite(c):
            return "c_point[%d] = %r" % (k, c)
        if not lo <= c <= hi:
            return "c_point[%d] = %r outside [%r, %r]" % (k, c, lo, hi)
        m = (F(lo) + F(hi)) / 2
        tol = Fraction(math.ulp(max(abs(float(lo)), abs(float(hi)), 5e-324)))
        if abs(F(c) - m) > tol:
            return "c_point[%d] = %r is not the midpoint of [%r, %r]" % (k, c, lo, hi)
    return None


def grid_tiles(parent_box, boxes, max_cells=200000):
    """Union of ``boxes`` == parent_box and interiors pairwise disjoint, decided on the
    grid induced by all boundaries.  Returns None, an error text, or 'skipped'."""
    parent_box = exbox(parent_box)
    boxes = [exbox(b) for b in boxes]
    d = len(parent_box)
    grids = []
    for k in range(d):
        vals = {parent_box[k][0], parent_box[k][1]}
        for b in boxes:
            vals.add(b[k][0])
            vals.add(b[k][1])
        g = sorted(vals)
        if g[0] < parent_box[k][0] or g[-1] > parent_box[k][1]:
            return "a child exceeds the parent along dimension %d" % k
        grids.append(g)
    shape = [max(0, len(g) - 1) for g in grids]
    ncell = 1
    for s in shape:
        ncell *= s
    if ncell > max_cells:
        return "skipped"
    counts = {}
    for bi, b in enumerate(boxes):
        rngs = []
        empty = False
        for k in range(d):
            i0 = bisect.bisect_left(grids[k], b[k][0])
            i1 = bisect.bisect_left(grids[k], b[k][1])
            if i1 <= i0:
                empty = True
                break
            rngs.append(range(i0, i1))
        if empty:
            continue  # degenerate box: empty interior
        idx = [r.start for r in rngs]
        while True:
            key = tuple(idx)
            if key in counts:
                return "children %d and %d overlap in cell %r" % (counts[key], bi, [
                    (grids[k][i], grids[k][i + 1]) for k, i in enumerate(idx)])
            counts[key] = bi
            # odometer
            k = d - 1
            while k >= 0:
                idx[k] += 1
                if idx[k] < rngs[k].stop:
                    break
                idx[k] = rngs[k].start
                k -= 1
            if k < 0:
                break
    if len(counts) != ncell:
        # find an uncovered cell for the message
        idx = [0] * d
        while True:
            if tuple(idx) not in counts:
                return "region %r of the parent is covered by no child" % ([
                    (grids[k][i], grids[k][i + 1]) for k, i in enumerate(idx)],)
            k = d - 1
            while k >= 0:
                idx[k] += 1
                if idx[k] < shape[k]:
                    break
                idx[k] = 0
                k -= 1
            if k < 0:
                break
        return "cover count mismatch"
    return None


def split_ok(cls_name, K, parent, children):
    """The whole per-split predicate of C02.  Returns None or a (clause, text) pair."""
    pbox = exbox(parent.get_domain()) if box_ok(parent.get_domain(), len(parent.get_domain())) is None else parent.get_domain()
    d = len(pbox)
    expect = K if cls_name in ("KaryPartition", "RandomKaryPartition") else (
        2 ** d if cls_name == "DimensionBinaryPartition" else 2)
    if len(children) != expect:
        return ("arity", "%d children, documented arity %d" % (len(children), expect))
    boxes = []
    for c in children:
        b = c.get_domain()
        msg = box_ok(b, d)
        if msg:
            return ("child-box", msg)
        b = exbox(b)
        for k in range(d):
            if b[k][0] < pbox[k][0] or b[k][1] > pbox[k][1]:
                return ("containment", "child %r not inside parent %r" % (b, pbox))
        boxes.append(b)
    msg = grid_tiles(pbox, boxes)
    if msg and msg != "skipped":
        return ("tiling", "%s; parent %r children %r" % (msg, pbox, boxes))
    # which dimensions were split
    split_dims = [k for k in range(d) if any(b[k][0] != pbox[k][0] or b[k][1] != pbox[k][1] for b in boxes)]
    if cls_name != "DimensionBinaryPartition" and len(split_dims) > 1:
        return ("split-dims", "children differ from the parent along %r" % (split_dims,))
    for k in range(d):
        if k in split_dims:
            continue
        for b in boxes:
            if b[k][0] != pbox[k][0] or b[k][1] != pbox[k][1]:
                return ("split-dims", "unsplit dimension %d changed" % k)
    if cls_name in EQUAL_SIZE:
        per_dim = 2 if cls_name != "KaryPartition" else K
        dims = range(d) if cls_name == "DimensionBinaryPartition" else split_dims
        for k in dims:
            w = F(pbox[k][1]) - F(pbox[k][0])
            target = w / per_dim
            ulpM = Fraction(math.ulp(max(abs(float(pbox[k][0])), abs(float(pbox[k][1])), 5e-324)))
            # a correctly rounded midpoint (lo+hi)/2 is within half an ulp of the exact one; np.linspace rounds
            # each boundary separately, so K-ary sides get 8 ulp
            tol = 8 * ulpM if cls_name == "KaryPartition" else ulpM / 2
            for b in boxes:
                side = F(b[k][1]) - F(b[k][0])
                if abs(side - target) > tol:
                    return ("equal-size", "side %r along dim %d, expected width/%d = %r (parent %r)" % (
                        float(side), k, per_dim, float(target), pbox[k]))
    for c in list(children) + [parent]:
        msg = centre_ok(c)
        if msg:
            return ("centre", msg)
    return None


def leaves_tile(root_box, leaf_boxes, probes, max_cells=20000):
    """Leaves tile the root: grid predicate when small enough, else probe points."""
    msg = grid_tiles(root_box, leaf_boxes, max_cells=max_cells)
    if msg is None:
        return None, "grid"
    if msg != "skipped":
        return msg, "grid"
    root_box = exbox(root_box)
    leaf_boxes = [exbox(b) for b in leaf_boxes]
    d = len(root_box)
    for u in probes:
        p = [float(root_box[k][0]) + (float(root_box[k][1]) - float(root_box[k][0])) * u[k % len(u)] for k in range(d)]
        p = [min(max(p[k], root_box[k][0]), root_box[k][1]) for k in range(d)]
        closed = sum(1 for b in leaf_boxes if all(b[k][0] <= p[k] <= b[k][1] for k in range(d)))
        opened = sum(1 for b in leaf_boxes if all(b[k][0] < p[k] < b[k][1] for k in range(d)))
        if closed < 1:
            return "point %r of the root box lies in no leaf" % (p,), "probe"
        if opened > 1 or (opened == 1 and closed != 1):
            return "point %r lies inside %d leaves (closed: %d)" % (p, opened, closed), "probe"
    return None, "probe"
